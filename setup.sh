#!/bin/sh
# Build the harness offline from files on disk and syntax-check every TLA+ module.
set -e
cd "$(dirname "$0")"
. ./env.sh
(cd harness && cp /repo/go.sum . 2>/dev/null || true; go build -tags verif -o ../bin/vcheck ./cmd/vcheck)
for f in spec/*.tla; do
  ( cd spec && tla-sany "$(basename "$f")" >/dev/null 2>&1 ) || { echo "SANY failed: $f"; exit 1; }
done
echo setup ok
