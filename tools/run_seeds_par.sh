#!/bin/bash
# usage: run_seeds_par.sh [jobs] [seed ids...]
# Re-runs the seeded changes of /verif/seeded in parallel WITHOUT touching /repo: each seed gets a scratch worktree of
# /repo with its patch applied and a scratch copy of /verif (the check rebuilds there against VERIF_REPO); both are
# removed afterwards. Expected: exit=1 with VIOLATION lines for every seed. One line per seed on stdout.
J=${1:-4}; [ $# -gt 0 ] && shift
cd /verif; SD=${SEED_DIR:-/verif/seeded}
IDS="$*"; [ -z "$IDS" ] && IDS=$(ls $SD)
ROOT=$(mktemp -d /tmp/rsp.XXXXXX)
run_one() {
  id=$1; prop=$(echo $id | cut -c1-3)
  wt=$ROOT/repo_$id; vf=$ROOT/verif_$id
  git -C /repo worktree add --detach $wt HEAD > /dev/null 2>&1 || { echo "$id: cannot create worktree"; return; }
  ( cd $wt && git apply $SD/$id/patch.diff ) || { echo "$id: patch does not apply"; git -C /repo worktree remove --force $wt; return; }
  mkdir -p $vf && rsync -a --exclude .git --exclude evidence --exclude replays --exclude seeded --exclude bin /verif/ $vf/
  s=$(date +%s)
  ( cd $vf && VERIF_REPO=$wt VERIF_EVIDENCE_DIR=$vf/ev timeout 3000 ./check $prop quick > $ROOT/$id.log 2>&1 ); rc=$?
  e=$(date +%s)
  echo "$id: check $prop exit=$rc ($(grep -c '^VIOLATION' $ROOT/$id.log) violation lines, $((e-s))s) $(grep -m1 'what:' $ROOT/$id.log | cut -c1-140)"
  git -C /repo worktree remove --force $wt; rm -rf $vf
}
n=0
for id in $IDS; do
  run_one $id &
  n=$((n+1))
  if [ $n -ge $J ]; then wait -n 2>/dev/null || wait; n=$((n-1)); fi
done
wait
git -C /repo worktree prune
rm -rf $ROOT
