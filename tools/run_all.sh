#!/bin/sh
# usage: run_all.sh <quick|thorough> [seed]  -- runs every registered check in sequence, prints one line each
TIER=${1:-quick}; export VERIF_SEED=${2:-1}
cd /verif
for id in $(python3 -c "import json;print(' '.join(c['property_id'] for c in json.load(open('MANIFEST.json'))['checks']))"); do
  s=$(date +%s); ./check $id $TIER > /tmp/runall_$id.log 2>&1; rc=$?; e=$(date +%s)
  echo "$id rc=$rc $((e-s))s $(tail -1 /tmp/runall_$id.log | cut -c1-150)"
done
