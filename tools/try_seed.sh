#!/bin/sh
# usage: try_seed.sh <patch.diff> <check id>...   -- applies a seeded change to /repo, runs quick checks, reverts
P=$1; shift
export VERIF_EVIDENCE_DIR=/tmp/seed_evidence
cd /repo && git apply "$P" || { echo "patch does not apply"; exit 2; }
for id in "$@"; do
  ( cd /verif && timeout 1500 ./check $id quick > /tmp/seed_$id.log 2>&1; echo "$id exit=$? $(grep -c '^VIOLATION' /tmp/seed_$id.log) violation lines; first: $(grep -m1 'what:' /tmp/seed_$id.log | cut -c1-220)" )
done
cd /repo && git checkout -- . && git status --short | head -3
