#!/bin/sh
# Applies every seeded change in /verif/seeded/*/patch.diff to /repo in turn, runs the quick check of the property it
# breaks, reverts, and prints one line per seed (expected: exit=1 with VIOLATION lines for every seed).
cd /verif
export VERIF_EVIDENCE_DIR=/tmp/seed_evidence
for d in seeded/*/; do
  id=$(basename $d); prop=$(echo $id | cut -c1-3)
  ( cd /repo && git apply /verif/$d/patch.diff ) || { echo "$id: patch does not apply"; continue; }
  s=$(date +%s); timeout 2400 ./check $prop quick > /tmp/seedrun_$id.log 2>&1; rc=$?; e=$(date +%s)
  ( cd /repo && git checkout -- . )
  echo "$id: check $prop exit=$rc ($(grep -c '^VIOLATION' /tmp/seedrun_$id.log) violation lines, $((e-s))s) $(grep -m1 'what:' /tmp/seedrun_$id.log | cut -c1-140)"
done
cd /repo && git status --short | head -3
