#!/bin/sh
# usage: confirm_seed.sh <worktree> <demo test file relative path> <go test -run pattern> <package>
# Confirms in a scratch worktree: demo fails with the change, passes without, and the
# existing suite passes with the change (demo moved aside).
W=$1; DEMO=$2; PAT=$3; PKG=$4
export GOFLAGS=-mod=mod GOPROXY=off GOSUMDB=off GOTOOLCHAIN=local
cd "$W" || exit 2
L=$W/confirm.log; : > $L
git diff --quiet -- . ':!*_test.go' && { echo "no source change applied" >> $L; }
go build ./... >> $L 2>&1 && echo "BUILD ok" >> $L
go test -vet=off -count=1 -run "$PAT" $PKG > $W/demo_with.log 2>&1; echo "DEMO with change: exit=$?" >> $L
git apply -R patch.diff && { go test -vet=off -count=1 -run "$PAT" $PKG > $W/demo_without.log 2>&1; echo "DEMO without change: exit=$?" >> $L; git apply patch.diff; }
mv $DEMO /tmp/$(basename $W)_demo.go.aside
go test -vet=off -count=1 -timeout 25m ./... > $W/suite_with.log 2>&1; echo "SUITE with change: exit=$?" >> $L
mv /tmp/$(basename $W)_demo.go.aside $DEMO
cat $L
