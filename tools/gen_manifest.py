#!/usr/bin/env python3
"""Regenerates /verif/MANIFEST.json from the table below (kept valid at all times)."""
import json, os
ROOT = os.path.dirname(os.path.dirname(os.path.abspath(__file__)))
props = [json.loads(l)['id'] for l in open(os.path.join(ROOT, 'properties.jsonl'))]

TRUST = ("Trusted base: TLC and the CommunityModules; the harness's projection of real objects through the public API; "
         "small-scope hypothesis for the exhaustive part (constants in the evidence file).")

# id -> (engine, level text, level_note, technique, design_ref)
CHECKS = {
 "C04": ("store",
   "TLC model-checks Store.tla (exact index->weight map semantics; invariants S_Conserve, S_KeyAtRank, S_MergeOrderIrrelevant and the action properties) exhaustively for small constants; every history TLC generates (exhaustive tree + seeded long simulations) is replayed on real dense/sparse/paginated stores under many index embeddings with == comparison of every observable of every slot after every step; long recorded executions of the real stores (production-size indexes, page/array boundaries) are validated by TLC against the same specification.",
   TRUST + " Weights are dyadic so float sums are exact; model indexes 0..4 are embedded order-preservingly.",
   "TLA+ spec (Store.tla) + TLC model checking + model-based replay and TLC trace validation of the real stores", "6 (C04)"),
 "C05": ("store",
   "TLC checks that the operational collapsing design (sticky flag, window, same-kind merge fast path) equals the declarative fold for every history (S_Fold, S_Span, S_Conserve, S_CollapsedMeaning, S_FastMergeIsGeneric) for pairs of kinds/limits; generated histories are replayed on real CollapsingLowest/HighestDenseStore with every partner kind (panics are disagreements); recorded executions with N in {1,2,3,8,128,2048} are validated by TLC, including the allocated array length (layout hook) <= N.",
   TRUST + " The sketch-level accuracy clause of C05 is exercised by the sketch pipeline (C12) with collapsing stores.",
   "TLA+ spec (Store.tla operational collapsing vs declarative fold) + TLC + replay/trace validation on the real collapsing stores", "6 (C05)"),
}

NA = {
 "C03": "pure float64 numerics of one function over ~2^62 inputs; TLC has no floating point and 32-bit integers, so a TLA+ model would only be a test enumerator with the oracle in Go (DESIGN.md section 7)",
}

checks = []
for pid in props:
    if pid in CHECKS:
        eng, text, note, tech, ref = CHECKS[pid]
        checks.append({
            "property_id": pid,
            "quick_cmd": f"./check {pid} quick",
            "thorough_cmd": f"./check {pid} thorough",
            "evidence_file": f"/verif/evidence/{pid}.json",
            "replay_cmd_template": "./check replay {path}",
            "engine": eng,
            "level_claimed": {"category": "model_checking", "text": text, "design_ref": "DESIGN.md section " + ref},
            "level_note": note,
            "technique": tech,
        })
na = [{"property_id": p, "reason": NA.get(p, "check not built yet (work in progress; see DESIGN.md section 12)")}
      for p in props if p not in CHECKS]

m = {
 "version": 1,
 "setup_cmd": "./setup.sh",
 "hooks": {
   "guard": "verif",
   "enable": "go build -tags verif (harness module /verif/harness with `replace github.com/DataDog/sketches-go => /repo`)",
   "baseline_off_cmd": "cd /repo && GOFLAGS=-mod=mod GOPROXY=off GOSUMDB=off go test -vet=off -count=1 -timeout 25m ./...",
   "source_commits": ["c24ac9e"],
   "add_only": True,
 },
 "engines": [
   {"name": "store", "path": "spec/Store.tla spec/IndexMap.tla spec/MC_Store.tla spec/Gen_Store.tla spec/Trace_Store.tla harness/cmd/vcheck/store*.go",
    "serves_properties": ["C04", "C05"], "kind_free_text": "TLA+ specification of the bin stores; TLC model checking; behaviours replayed on real stores; recorded traces validated by TLC"},
 ],
 "checks": checks,
 "notes": "All checks: ./check <id> <quick|thorough>; exit 0 held, 1 VIOLATION, 2 infrastructure trouble. Fixes of genuine defects in /repo are 'fix:' commits listed in known_findings.json.",
 "not_applicable": na,
}
json.dump(m, open(os.path.join(ROOT, 'MANIFEST.json'), 'w'), indent=1)
print("MANIFEST.json written:", len(checks), "checks,", len(na), "not applicable")
