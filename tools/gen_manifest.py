#!/usr/bin/env python3
"""Regenerates /verif/MANIFEST.json from the table below (kept valid at all times)."""
import json, os
ROOT = os.path.dirname(os.path.dirname(os.path.abspath(__file__)))
props = [json.loads(l)['id'] for l in open(os.path.join(ROOT, 'properties.jsonl'))]

TRUST = ("Trusted base: TLC and the CommunityModules; the harness's projection of real objects through the public API; "
         "small-scope hypothesis for the exhaustive part (constants in the evidence file).")

# id -> (engine, level text, level_note, technique, design_ref)
CHECKS = {
 "C04": ("store",
   "TLC model-checks Store.tla (exact index->weight map semantics; invariants S_Conserve, S_KeyAtRank, S_MergeOrderIrrelevant and the action properties) exhaustively for small constants; every history TLC generates (exhaustive tree + seeded long simulations) is replayed on real dense/sparse/paginated stores under many index embeddings with == comparison of every observable of every slot after every step; long recorded executions of the real stores (production-size indexes, page/array boundaries) are validated by TLC against the same specification. The implementation-level models DenseImpl.tla (array, offset, min/max) and PagedImpl.tla (buffer, capacity, compaction trigger, pages) are checked by TLC to refine the abstract map and are bound to the code by validating the layout recorded through the build-tag hook with the real constants (a layout disagreement is reported as conformance drift, not as a violation).",
   TRUST + " Weights are dyadic so float sums are exact; model indexes 0..4 are embedded order-preservingly.",
   "TLA+ spec (Store.tla) + TLC model checking + model-based replay and TLC trace validation of the real stores", "6 (C04)"),
 "C05": ("store",
   "TLC checks that the operational collapsing design (sticky flag, window, same-kind merge fast path) equals the declarative fold for every history (S_Fold, S_Span, S_Conserve, S_CollapsedMeaning, S_FastMergeIsGeneric) for pairs of kinds/limits; generated histories are replayed on real CollapsingLowest/HighestDenseStore with every partner kind (panics are disagreements); recorded executions with N in {1,2,3,8,128,2048} are validated by TLC, including the allocated array length (layout hook) <= N; the array-level model DenseImpl.tla (extendRange/adjust/shiftCounts with Go slice-bounds checks) is checked to refine the abstract stores without out-of-bounds access (it reproduces the F3 panic when the repair is switched off) and its layout is validated against recorded layouts with the real overhead 64.",
   TRUST + " Sketch level: Gen_Sketch histories on sketches built on collapsing stores - folded content (==), every q=a/8 answer within a bin the specification allows at that rank on the folded content, clamped min/max.",
   "TLA+ spec (Store.tla operational collapsing vs declarative fold) + TLC + replay/trace validation on the real collapsing stores", "6 (C05)"),
}

SK = "TLA+ spec (Sketch.tla) + TLC model checking + TLC-generated behaviours replayed on real sketches"
CHECKS.update({
 "C01": ("sketch", "TLC checks K_Rank/K_Ends/K_Monotone of Sketch.tla over every multiset of value tokens added one at a time; every generated history is replayed on real sketches (3 mapping kinds x alphas x dense/sparse/paginated x key embeddings at 1.0, the smallest and the largest indexable bins) and after every step each q=a/8 answer must be within alpha of a token holding the order statistic of rank floor or ceil of q(n-1) in the specification's bag. Direction B: executions of real sketches with thousands of values (the test generators' shapes, hundreds of bins) are recorded with quantile queries at EVERY k/(n-1) and both float neighbours (exact floor/ceil ranks by math/big) and validated by TLC (Trace_Sketch.tla).",
   TRUST + " Values are bin-extreme float64 found by bisection on the real Index(); numeric predicate |y-x| <= alpha|x| + 2e-12|x| (abstraction relation R). q on the grids a/8 and k/72 (bulk-add tree: every integer rank) in direction A; arbitrary float64 q (k/(n-1) with float neighbours, both sides of every bin boundary) in direction B.", SK + " + TLC trace validation of recorded sketch executions", "6 (C01)"),
 "C02": ("sketch", "TLC checks K_Merge/K_Content/K_OnlyReceiverChanges for every interleaving of Add/Merge/Clear over 3 sketches; each generated history is replayed on real sketches (all mixes of non-collapsing store kinds, mappings, alphas; both variants) and after every merge the receiver must answer bit-for-bit like a single fresh sketch fed the multiset the specification attributes to it, while every non-receiver keeps its snapshot.",
   TRUST + " The union multiset is the specification's ghost bag; the comparison is real sketch vs real sketch. Simulated merge trees also merge through Encode + DecodeAndMergeWith; every other slot is built by the library's preset constructors where one matches.", SK + " (twin sketch fed the specification's bag)", "6 (C02)"),
 "C10": ("sketch", "TLC checks X_Stats (exact count/min/max are functions of the absorbed multiset) over histories of the exact variant (adds incl. weight 0 and refused values, merge, copy, clear, reweight, encode/decode); generated histories are replayed on real DDSketchWithExactSummaryStatistics: count/min/max == the specification's, sum within 16*2^-53*sum|v*w| of the exact rational sum (math/big), quantiles == plain answers clamped to [min,max].",
   TRUST + " Abstraction relation R for token values; sums near MaxFloat64 (overflow) not compared; ChangeMapping's rescaling is under C17.", SK, "6 (C10)"),
 "C11": ("sketch", "TLC checks the weighted K_Rank (answer bin holds a token whose cumulative-weight interval is within one unit of q(W-1)) for all weighted multisets with weights 1/4..3 units and totals from 1/4 unit (weighted adds and Reweight); generated histories are replayed on real sketches and every q=a/8 answer (single query and batch query) must be within alpha of an allowed token and between the reported min and max.",
   TRUST + " Abstraction relation R; weights multiples of 1/4 up to 2^10 units.", SK, "6 (C11)"),
 "C12": ("sketch", "TLC checks K_Content/K_Ends/K_Monotone incl. collapsing store kinds; generated histories (adds of all sign mixes, merge, copy, clear, decode) are replayed on real sketches of all store kinds and after every step count/emptiness/zero weight, min/max (within alpha of the specification's extreme; clamped bin for collapsing stores), monotonicity and [min,max] containment of q=a/8 answers, batch==single queries, ForEach (one callback per bin, positive weights, total, early stop) and GetSum are checked.",
   TRUST + " Abstraction relation R; sums near MaxFloat64 not compared.", SK, "6 (C12)"),
 "C13": ("sketch", "TLC checks the action property K_Refused over value tokens {NaN, +-Inf, +-MaxFloat64, beyond +-MaxIndexableValue, +-MaxIndexableValue (accepted), -0, sub-minimum}, weights {negative,0,positive}, factors {negative,0,1,positive} and merges across different mappings; generated histories are replayed on both sketch variants: documented sentinel errors, snapshots unchanged by refused calls, accepted tokens accepted, invalid q and empty-sketch queries refused in every reached state.",
   TRUST + " NaN weights/factors/constructor parameters are outside the contract.", SK, "6 (C13)"),
 "C14": ("sketch", "TLC checks K_ReadOnly/K_OnlyReceiverChanges/K_Copy; each generated history (all operations interleaved with reads and copies, all store kinds, both variants) is executed on real sketches with full snapshots around every event: non-receivers keep their snapshot, a copy equals its original, and the run with reads ends bit-identical to the run without reads.",
   TRUST + " Snapshot excludes the plain GetSum (iteration-order dependent rounding on sparse stores).", SK + " (real-vs-real snapshots; the spec names the receiver)", "6 (C14)"),
 "C15": ("sketch", "TLC checks K_ClearIsInit/S_ClearIsInit; each generated history with Clear anywhere is executed twice on real objects, as is and with every Clear replaced by constructing a brand-new object; after every step all slots must answer bit-identically in both runs (all store kinds incl. collapsing, both variants, cleared objects as decode targets and merge operands).",
   TRUST, SK + " (real-vs-real: cleared object vs brand-new twin)", "6 (C15)"),
 "C16": ("sketch", "TLC checks K_Reweight/S_Reweight; on real sketches of all store kinds (incl. collapsing, paginated stores with buffered and paged indexes) the snapshot just before each Reweight(f) is compared with the one just after: every bin, zero weight, count (and exact count) scale exactly by f, exact min/max unchanged, exact sum within rounding; finally the sketch equals a fresh one fed the specification's scaled bag.",
   TRUST + " Factors 1/4,1/2,2,3,1; dyadic weights.", SK, "6 (C16)"),
})

WR = "TLA+ spec of the documented wire format (Wire.tla) + TLC enumeration of streams + independent serializer feeding the real decoders; real encodings tokenised and validated by TLC (Trace_Wire.tla)"
CHECKS.update({
 "C07": ("wire", "TLC enumerates every stream of up to 3-5 documented blocks (all three bin layouts, N=0, negative/zero/large strides, repeated indexes and blocks, statistics blocks, any order) and checks W_OrderIrrelevant, W_StatsIgnoredByPlain, W_ConcatIsMerge, W_FoldedTargets; each stream is serialised by an independent writer and decoded by the real decoders into every store kind: the content must equal what Wire.tla assigns. Producer side: thousands of real encodings (all store kinds, both variants, all mappings) are tokenised by an independent tokenizer and TLC checks the documented meaning of their blocks equals the source content.",
   TRUST + " wirefmt.go (the independent writer/tokenizer) is part of the trusted base and is itself validated against Varint.tla vectors.", WR, "6 (C07)"),
 "C08": ("wire", "For every enumerated stream (incl. undefined flags, conflicting mapping blocks, mapping-less streams) and thousands of real encodings, EVERY byte prefix is fed to every real decoder: a cut strictly inside a block must be an error, a cut at a boundary must behave like the shorter stream as classified by Wire.tla (W_Errors), and nothing may panic.",
   TRUST + " Only error vs success (and the content on success) is compared, not which error.", WR, "6 (C08)"),
})

CHECKS.update({
 "C06": ("sketch", "TLC checks on Sketch.tla that decoding an encoding is absorbing the encoded content (EncDec, DecodeNew, Concat actions; K_Content/K_Merge) and on Wire.tla that a concatenation decodes to the merge (W_ConcatIsMerge, W_FoldedTargets); generated histories are replayed on real sketches of all (source, target) store-kind pairs, mapping embedded or omitted, after a non-empty caller buffer: the target must hold bit for bit the per-index sums of its previous content and the sources' contents (a fresh target then answers every query like the source, exact statistics included), bounded targets the fold the spec predicts, equal mapping of the same kind, prefix intact, source snapshot unchanged.",
   TRUST + " Weights dyadic (the class for which the +1/-1 float transform is exact; other floats are C18's matter).", SK + " (decode = merge, real vs real)", "6 (C06)"),
 "C09": ("sketch", "Sketch.tla histories with Proto actions (ToProto->Marshal->Unmarshal->FromProtoWithStoreProvider, or the streamed EncodeProto bytes) between sketches of every store kind: rebuilt content bit for bit, equal mapping of the same kind; after every step the message unmarshalled from EncodeProto equals ToProto() field by field.",
   TRUST + " google.golang.org/protobuf trusted. Hand-built messages mixing both bin forms: see DESIGN.md (Proto.tla).", SK, "6 (C09)"),
 "C18": ("varint", "Varint.tla transcribes the uvarint64 / zig-zag varint64 / varfloat64 codecs as byte loops over 64-bit bit vectors; TLC checks round trip with trailing bytes, 1..9 bytes, size functions, strict-prefix EOF (V_Corpus, ~400 words of every bit-length class) and framing on all byte strings of length <= 2 and structured strings up to length 10 (V_Strings); every vector is an implementation test of the real codecs; values drawn in Go are encoded by the real encoders and TLC validates bytes and sizes (Trace_Varint).",
   TRUST + " The float transform bits(v+1)-bits(1) / (v+1)-1 is applied by the harness.", "TLA+ spec of the codecs as bit-vector state machines (Varint.tla) + TLC vectors as implementation tests + TLC trace validation of real encoder output", "6 (C18)"),
 "C19": ("mappingid", "MappingId.tla: a mapping is (kind, gamma token, offset token) and its binary, protobuf and streamed forms are images of the triple; TLC checks M_RoundTrip, M_Injective, M_Equality over all ordered pairs and emits them; on real mappings Equals must agree on every ordered pair, every form read back must be equal, of the same kind and agree bitwise on Index/Value/LowerBound at 200 probes; from-accuracy == from-base-and-offset.",
   TRUST + " Tokens stand for values >= 0.1% apart.", "TLA+ spec (MappingId.tla) + TLC enumeration of ordered pairs replayed on real mappings", "6 (C19)"),
 "C20": ("dataset", "Dataset.tla (lazy in-place sort, arrival order, Merge appends) is checked by TLC to refine the multiset specification (D_Refines) for every interleaving of Add/Merge/queries; every generated history is replayed on the real Dataset with == comparison of Lower/Upper/Quantile at q=a/8, NaN cases, Min, Max, Count, Sum; large datasets at q=k/(n-1) and float neighbours against big.Rat ranks.",
   TRUST + " For non-dyadic q the rank of either the exact or the float64 product q(n-1) is accepted.", "TLA+ spec (Dataset.tla) + TLC refinement check + behaviours replayed on the real Dataset", "6 (C20)"),
})

CHECKS.update({
 "C17": ("sketch", "Sketch.tla's ChangeMap action fixes the structural part (requested mapping, source's variant, source unchanged, equal mapping and scale 1 = exact copy, exact count kept); generated histories build sketches and convert them (all ordered pairs of mapping kinds, alphas coarser/finer/equal, scales 1/2..1e3, 1/gamma, gamma, all store kinds, both variants); at each conversion the real result is checked against the REAL source: zero weight ==, total within 1e-9, no negative bin (read through ToProto), cumulative locality sandwich at every target-bin boundary, exact statistics rescaled, and every q=a/8 answer within the combined accuracy of scale x the estimate of a source bin the specification allows at that rank.",
   TRUST + " The proportional split is float arithmetic and is NOT modelled: its result is judged by the numeric relation R (combined-accuracy bound, locality sandwich, 1e-9 slivers). Values around 1.0 so that scaled values stay inside both ranges.", SK + " + numeric relation for the split", "6 (C17)"),
})

NA = {
 "C03": "pure float64 numerics of one function over ~2^62 inputs; TLC has no floating point and 32-bit integers, so a TLA+ model would only be a test enumerator with the oracle in Go (DESIGN.md section 7)",
}

checks = []
for pid in props:
    if pid in CHECKS:
        eng, text, note, tech, ref = CHECKS[pid]
        checks.append({
            "property_id": pid,
            "quick_cmd": f"./check {pid} quick",
            "thorough_cmd": f"./check {pid} thorough",
            "evidence_file": f"/verif/evidence/{pid}.json",
            "replay_cmd_template": "./check replay {path}",
            "engine": eng,
            "level_claimed": {"category": "model_checking", "text": text, "design_ref": "DESIGN.md section " + ref},
            "level_note": note,
            "technique": tech,
        })
na = [{"property_id": p, "reason": NA.get(p, "check not built yet (work in progress; see DESIGN.md section 12)")}
      for p in props if p not in CHECKS]

m = {
 "version": 1,
 "setup_cmd": "./setup.sh",
 "hooks": {
   "guard": "verif",
   "enable": "go build -tags verif (harness module /verif/harness with `replace github.com/DataDog/sketches-go => /repo`)",
   "baseline_off_cmd": "cd /repo && GOFLAGS=-mod=mod GOPROXY=off GOSUMDB=off go test -vet=off -count=1 -timeout 25m ./...",
   "source_commits": ["c24ac9e"],
   "add_only": True,
 },
 "engines": [
   {"name": "sketch", "path": "spec/Sketch.tla spec/StoreOps.tla spec/MC_Sketch.tla spec/Gen_Sketch.tla harness/cmd/vcheck/sketch*.go harness/cmd/vcheck/rel.go",
    "serves_properties": ["C01", "C02", "C06", "C09", "C10", "C11", "C12", "C13", "C14", "C15", "C16", "C17"], "kind_free_text": "TLA+ specification of DDSketch / DDSketchWithExactSummaryStatistics over value tokens; TLC model checking; behaviours replayed on real sketches"},
   {"name": "wire", "path": "spec/Wire.tla spec/Gen_Wire.tla spec/Trace_Wire.tla harness/cmd/vcheck/wire.go harness/cmd/vcheck/wirefmt.go",
    "serves_properties": ["C07", "C08"], "kind_free_text": "TLA+ specification of the documented block format; TLC enumerates streams; independent serializer/tokenizer binds it to the real encoder and decoders"},
   {"name": "varint", "path": "spec/Varint.tla spec/Gen_Varint.tla spec/Trace_Varint.tla harness/cmd/vcheck/varint.go", "serves_properties": ["C18"], "kind_free_text": "bit-vector TLA+ model of the codecs; vectors and trace validation"},
   {"name": "mappingid", "path": "spec/MappingId.tla harness/cmd/vcheck/mappingid.go", "serves_properties": ["C19", "C13"], "kind_free_text": "mapping identity through serialized forms; constructor acceptance table"},
   {"name": "dataset", "path": "spec/Dataset.tla spec/Gen_Dataset.tla harness/cmd/vcheck/dataset.go", "serves_properties": ["C20"], "kind_free_text": "implementation-shaped dataset refined to a multiset"},
   {"name": "store", "path": "spec/Store.tla spec/IndexMap.tla spec/MC_Store.tla spec/Gen_Store.tla spec/Trace_Store.tla harness/cmd/vcheck/store*.go",
    "serves_properties": ["C04", "C05"], "kind_free_text": "TLA+ specification of the bin stores; TLC model checking; behaviours replayed on real stores; recorded traces validated by TLC"},
 ],
 "checks": checks,
 "notes": "All checks: ./check <id> <quick|thorough>; exit 0 held, 1 VIOLATION, 2 infrastructure trouble. Fixes of genuine defects in /repo are 'fix:' commits listed in known_findings.json.",
 "not_applicable": na,
}
json.dump(m, open(os.path.join(ROOT, 'MANIFEST.json'), 'w'), indent=1)
print("MANIFEST.json written:", len(checks), "checks,", len(na), "not applicable")
