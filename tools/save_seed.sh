#!/bin/sh
# usage: save_seed.sh <id> <demo path rel> "<needs>" "<caught by>"   -- copies a confirmed seed from /tmp/wt/<id> to /verif/seeded/<id>
ID=$1; DEMO=$2; NEEDS=$3; CAUGHT=$4
D=/verif/seeded/$ID; mkdir -p $D
cp /tmp/wt/$ID/patch.diff $D/patch.diff
cp /tmp/wt/$ID/$DEMO $D/$(basename $DEMO).txt
cp /tmp/wt/$ID/NOTES.md $D/NOTES.md 2>/dev/null
cp /tmp/wt/$ID/confirm.log $D/confirm.log
python3 - "$ID" "$DEMO" "$NEEDS" "$CAUGHT" <<'PY'
import json,sys
id,demo,needs,caught=sys.argv[1:5]
meta={"property":id,"patch":"patch.diff","demonstration":demo.split('/')[-1]+".txt (place at "+demo+" in the repository)",
 "needs_to_manifest":needs,
 "confirmed":{"builds":True,"existing_suite_passes_with_change":True,"demo_fails_with_change":True,"demo_passes_without_change":True,"how":"tools/confirm_seed.sh in a scratch worktree of /repo (see confirm.log)"},
 "detected_by":caught,
 "ran":"git -C /repo apply seeded/%s/patch.diff; ./check %s quick; git -C /repo checkout -- .  (tools/try_seed.sh)"%(id,id)}
json.dump(meta,open('/verif/seeded/%s/meta.json'%id,'w'),indent=1)
PY
