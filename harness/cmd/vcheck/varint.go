package main

// Varint pipeline (Varint.tla, property C18)

import (
	"bufio"
	"bytes"
	"encoding/json"
	"fmt"
	"io"
	"math"
	"math/bits"
	"math/rand"
	"os"
	"path/filepath"
	"time"

	enc "github.com/DataDog/sketches-go/ddsketch/encoding"
)

type vecWord struct {
	Kind   string  `json:"kind"`
	Bits   []int   `json:"bits"`
	EncU   intList `json:"encU"`
	EncS   intList `json:"encS"`
	EncVF  intList `json:"encVF"`
	SizeU  int     `json:"sizeU"`
	SizeS  int     `json:"sizeS"`
	SizeVF int     `json:"sizeVF"`
	Fits32 bool    `json:"fits32"`
	// string vectors
	Input intList `json:"input"`
	OkU   bool    `json:"okU"`
	ValU  []int   `json:"valU"`
	UsedU int     `json:"usedU"`
	ValS  []int   `json:"valS"`
	OkF   bool    `json:"okF"`
	ValF  []int   `json:"valF"`
	UsedF int     `json:"usedF"`
}

func bitsToWord(b []int) uint64 {
	var w uint64
	for i, x := range b {
		if x != 0 {
			w |= 1 << uint(i)
		}
	}
	return w
}

func wordToBits(w uint64) []int {
	out := make([]int, 64)
	for i := range out {
		out[i] = int(w >> uint(i) & 1)
	}
	return out
}

func toBytes(l intList) []byte {
	out := make([]byte, len(l))
	for i, x := range l {
		out[i] = byte(x)
	}
	return out
}

const traceVarintCfg = `INIT TraceInit
NEXT TraceNext
CONSTANTS
  ByteAlphabet = {}
  MaxLen = 0
INVARIANTS RealEncodingMatches
CHECK_DEADLOCK FALSE
`

var varintTrailers = [][]byte{nil, {0}, {0xff, 0x80}, {0x80}, {0x7f, 0x01, 0x02}}

// floatOfWord: the float the documented transform assigns to a transformed word x
func floatOfWord(x uint64) float64 { return math.Float64frombits(x+math.Float64bits(1)) - 1 }

func sameFloat(a, b float64) bool {
	return math.Float64bits(a) == math.Float64bits(b) || (math.IsNaN(a) && math.IsNaN(b))
}

// checkWordVector: one corpus vector as an implementation test. Returns (violation, drift).
func checkWordVector(v *vecWord) (what string, drift string) {
	defer func() {
		if r := recover(); r != nil {
			what = fmt.Sprintf("panic: %v", r)
		}
	}()
	w := bitsToWord(v.Bits)
	mU, mS, mF := toBytes(v.EncU), toBytes(v.EncS), toBytes(v.EncVF)
	// --- unsigned
	var b []byte
	b = append(b, 0xaa)
	enc.EncodeUvarint64(&b, w)
	if b[0] != 0xaa {
		return "EncodeUvarint64 changed the bytes already in the buffer", ""
	}
	realU := b[1:]
	if len(realU) < 1 || len(realU) > 9 || enc.Uvarint64Size(w) != len(realU) {
		return fmt.Sprintf("uvarint64 %#x: %d bytes encoded, Uvarint64Size=%d", w, len(realU), enc.Uvarint64Size(w)), ""
	}
	if !bytes.Equal(realU, mU) {
		drift = fmt.Sprintf("EncodeUvarint64(%#x)=%x, specification %x", w, realU, mU)
	}
	for _, src := range [][]byte{realU, mU} {
		for _, tr := range varintTrailers {
			in := append(append([]byte{}, src...), tr...)
			rest := in
			got, err := enc.DecodeUvarint64(&rest)
			if err != nil || got != w || len(in)-len(rest) != len(src) {
				return fmt.Sprintf("DecodeUvarint64(%x ++ %x) = %#x, err=%v, consumed %d; encoded value %#x in %d bytes", src, tr, got, err, len(in)-len(rest), w, len(src)), drift
			}
		}
		for k := 0; k < len(src); k++ {
			rest := append([]byte{}, src[:k]...)
			if _, err := enc.DecodeUvarint64(&rest); err != io.EOF || len(rest) != k {
				return fmt.Sprintf("DecodeUvarint64 of the %d-byte strict prefix of %x: err=%v, %d bytes left (want io.EOF, nothing consumed)", k, src, err, len(rest)), drift
			}
		}
	}
	// wirefmt's own primitives against the same vector
	if wb := wfPutUvarint(nil, w); !bytes.Equal(wb, mU) {
		infraFail("wirefmt uvarint writer disagrees with Varint.tla on %#x: %x vs %x", w, wb, mU)
	}
	if g, rest, err := wfGetUvarint(mU); err != nil || g != w || len(rest) != 0 {
		infraFail("wirefmt uvarint reader disagrees with Varint.tla on %x", mU)
	}
	// --- signed
	sv := int64(w)
	b = b[:0]
	enc.EncodeVarint64(&b, sv)
	if len(b) < 1 || len(b) > 9 || enc.Varint64Size(sv) != len(b) {
		return fmt.Sprintf("varint64 %d: %d bytes encoded, Varint64Size=%d", sv, len(b), enc.Varint64Size(sv)), drift
	}
	if !bytes.Equal(b, mS) && drift == "" {
		drift = fmt.Sprintf("EncodeVarint64(%d)=%x, specification %x", sv, b, mS)
	}
	for _, src := range [][]byte{append([]byte{}, b...), mS} {
		for _, tr := range varintTrailers {
			in := append(append([]byte{}, src...), tr...)
			rest := in
			got, err := enc.DecodeVarint64(&rest)
			if err != nil || got != sv || len(in)-len(rest) != len(src) {
				return fmt.Sprintf("DecodeVarint64(%x ++ %x) = %d, err=%v, consumed %d; encoded value %d in %d bytes", src, tr, got, err, len(in)-len(rest), sv, len(src)), drift
			}
			rest = in
			g32, err := enc.DecodeVarint32(&rest)
			if v.Fits32 {
				if err != nil || int64(g32) != sv {
					return fmt.Sprintf("DecodeVarint32 of %d: %d, err=%v", sv, g32, err), drift
				}
			} else if err == nil {
				return fmt.Sprintf("DecodeVarint32 accepted %d, which does not fit 32 bits (returned %d)", sv, g32), drift
			}
		}
		for k := 0; k < len(src); k++ {
			rest := append([]byte{}, src[:k]...)
			if _, err := enc.DecodeVarint64(&rest); err != io.EOF || len(rest) != k {
				return fmt.Sprintf("DecodeVarint64 of a %d-byte strict prefix of %x: err=%v (want io.EOF, nothing consumed)", k, src, err), drift
			}
		}
	}
	if wb := wfPutVarint(nil, sv); !bytes.Equal(wb, mS) {
		infraFail("wirefmt varint writer disagrees with Varint.tla on %d", sv)
	}
	// --- varfloat: w is the transformed word
	f := floatOfWord(w)
	for _, tr := range varintTrailers {
		in := append(append([]byte{}, mF...), tr...)
		rest := in
		got, err := enc.DecodeVarfloat64(&rest)
		if err != nil || !sameFloat(got, f) || len(in)-len(rest) != len(mF) {
			return fmt.Sprintf("DecodeVarfloat64(%x ++ %x) = %v, err=%v, consumed %d; the documented transform gives %v in %d bytes", mF, tr, got, err, len(in)-len(rest), f, len(mF)), drift
		}
	}
	for k := 0; k < len(mF); k++ {
		rest := append([]byte{}, mF[:k]...)
		if _, err := enc.DecodeVarfloat64(&rest); err != io.EOF || len(rest) != k {
			return fmt.Sprintf("DecodeVarfloat64 of a %d-byte strict prefix of %x: err=%v (want io.EOF, nothing consumed)", k, mF, err), drift
		}
	}
	if math.Float64bits(f+1)-math.Float64bits(1) == w {
		// the transform is exact for f: the real encoder must produce a decodable encoding of the predicted size
		b = b[:0]
		enc.EncodeVarfloat64(&b, f)
		if len(b) < 1 || len(b) > 9 || enc.Varfloat64Size(f) != len(b) || len(b) != v.SizeVF {
			return fmt.Sprintf("varfloat64 %v: %d bytes encoded, Varfloat64Size=%d, specification %d", f, len(b), enc.Varfloat64Size(f), v.SizeVF), drift
		}
		if !bytes.Equal(b, mF) && drift == "" {
			drift = fmt.Sprintf("EncodeVarfloat64(%v)=%x, specification %x", f, b, mF)
		}
		rest := append([]byte{}, b...)
		got, err := enc.DecodeVarfloat64(&rest)
		if err != nil || !sameFloat(got, (f+1)-1) || len(rest) != 0 {
			return fmt.Sprintf("DecodeVarfloat64(EncodeVarfloat64(%v)) = %v, err=%v; documented result (v+1)-1 = %v", f, got, err, (f+1)-1), drift
		}
		if wb := wfPutVarfloat(nil, f); !bytes.Equal(wb, mF) {
			infraFail("wirefmt varfloat writer disagrees with Varint.tla on %v", f)
		}
	}
	if g, rest, err := wfGetVarfloat(mF); err != nil || !sameFloat(g, f) || len(rest) != 0 {
		infraFail("wirefmt varfloat reader disagrees with Varint.tla on %x", mF)
	}
	return "", drift
}

func checkStringVector(v *vecWord) (what string) {
	defer func() {
		if r := recover(); r != nil {
			what = fmt.Sprintf("decoder panicked on %x: %v", toBytes(v.Input), r)
		}
	}()
	in := toBytes(v.Input)
	for _, tr := range [][]byte{nil, {0x00}, {0xff, 0xff}} {
		full := append(append([]byte{}, in...), tr...)
		_ = full
	}
	rest := append([]byte{}, in...)
	got, err := enc.DecodeUvarint64(&rest)
	used := len(in) - len(rest)
	if v.OkU {
		if err != nil || got != bitsToWord(v.ValU) || used != v.UsedU {
			return fmt.Sprintf("DecodeUvarint64(%x) = %#x, err=%v, consumed %d; specification: %#x consuming %d", in, got, err, used, bitsToWord(v.ValU), v.UsedU)
		}
	} else if err != io.EOF || used != 0 {
		return fmt.Sprintf("DecodeUvarint64(%x): err=%v consumed %d; specification: io.EOF, nothing consumed", in, err, used)
	}
	if used > 9 {
		return fmt.Sprintf("DecodeUvarint64(%x) consumed %d bytes", in, used)
	}
	rest = append([]byte{}, in...)
	gs, err := enc.DecodeVarint64(&rest)
	if v.OkU && (err != nil || gs != int64(bitsToWord(v.ValS))) {
		return fmt.Sprintf("DecodeVarint64(%x) = %d, err=%v; specification %d", in, gs, err, int64(bitsToWord(v.ValS)))
	}
	rest = append([]byte{}, in...)
	g32, err := enc.DecodeVarint32(&rest)
	if v.OkU {
		if v.Fits32 && (err != nil || int64(g32) != int64(bitsToWord(v.ValS))) {
			return fmt.Sprintf("DecodeVarint32(%x) = %d, err=%v; specification %d", in, g32, err, int64(bitsToWord(v.ValS)))
		}
		if !v.Fits32 && err == nil {
			return fmt.Sprintf("DecodeVarint32(%x) accepted a value that does not fit 32 bits", in)
		}
	}
	rest = append([]byte{}, in...)
	gf, err := enc.DecodeVarfloat64(&rest)
	used = len(in) - len(rest)
	if v.OkF {
		want := floatOfWord(bitsToWord(v.ValF))
		if err != nil || !sameFloat(gf, want) || used != v.UsedF {
			return fmt.Sprintf("DecodeVarfloat64(%x) = %v, err=%v, consumed %d; specification: %v consuming %d", in, gf, err, used, want, v.UsedF)
		}
	} else if err != io.EOF || used != 0 {
		return fmt.Sprintf("DecodeVarfloat64(%x): err=%v consumed %d; specification: io.EOF, nothing consumed", in, err, used)
	}
	if used > 9 {
		return fmt.Sprintf("DecodeVarfloat64(%x) consumed %d bytes", in, used)
	}
	// fixed-width little-endian floats and flags on the same bytes
	rest = append([]byte{}, in...)
	fl, err := enc.DecodeFloat64LE(&rest)
	if len(in) < 8 {
		if err != io.EOF || len(rest) != len(in) {
			return fmt.Sprintf("DecodeFloat64LE(%x): err=%v (want io.EOF, nothing consumed)", in, err)
		}
	} else {
		var b []byte
		enc.EncodeFloat64LE(&b, fl)
		if err != nil || len(rest) != len(in)-8 || !bytes.Equal(b, in[:8]) {
			return fmt.Sprintf("DecodeFloat64LE(%x) = %v err=%v; re-encoding gives %x", in, fl, err, b)
		}
	}
	return ""
}

func (c *Ctx) runVarintVectors(alphabet string, maxLen int, corpus bool, purpose string) {
	if !c.phase(purpose) {
		return
	}
	inv := "EmitStrings"
	if corpus {
		inv = "EmitCorpus V_Corpus"
	}
	cfg := fmt.Sprintf(`INIT Init
NEXT Next
CONSTANTS
  ByteAlphabet <- %s
  MaxLen = %d
INVARIANTS %s V_Strings
CHECK_DEADLOCK FALSE
`, alphabet, maxLen, inv)
	var n, drifts int64
	var parseErr error
	res := c.runTLC(TLCOpts{Module: "Gen_Varint", Cfg: cfg, Purpose: purpose, Constants: fmt.Sprintf("alphabet=%s maxLen=%d corpus=%v", alphabet, maxLen, corpus),
		Extra: map[string]string{}, OnBeh: func(line []byte) {
			v := &vecWord{}
			if err := json.Unmarshal(line, v); err != nil {
				if parseErr == nil {
					parseErr = fmt.Errorf("%v in %.200s", err, line)
				}
				return
			}
			n++
			var what, drift string
			if v.Kind == "word" {
				what, drift = checkWordVector(v)
				c.addDistinct(fmt.Sprintf("w%x", bitsToWord(v.Bits)))
				if n <= 2 {
					c.addSample(map[string]interface{}{"pipeline": "Varint corpus vector", "word": fmt.Sprintf("%#x", bitsToWord(v.Bits)), "encU": v.EncU, "encS": v.EncS, "encVF": v.EncVF})
				}
			} else {
				what = checkStringVector(v)
				c.addDistinct(fmt.Sprintf("s%x", toBytes(v.Input)))
				if n <= 2 {
					c.addSample(map[string]interface{}{"pipeline": "Varint byte-string vector", "input": v.Input, "okU": v.OkU, "usedU": v.UsedU})
				}
			}
			if drift != "" {
				drifts++
				c.driftNote("%s", drift)
			}
			if what != "" {
				c.report(&Violation{Pipeline: "varint", Case: v, What: what, Tags: map[string]string{"outcome": "mismatch", "kind": v.Kind}})
			}
		}})
	if parseErr != nil {
		infraFail("cannot parse vector: %v", parseErr)
	}
	if res.Violated != "" {
		infraFail("Varint.tla violated %s\n%s", res.Violated, res.ErrorText)
	}
	if n == 0 {
		infraFail("no vector emitted (%s)", purpose)
	}
	c.mu.Lock()
	c.Ev.Coverage.Traces += n
	c.Ev.Coverage.Evaluations += n
	c.Ev.Coverage.StepsCompared += n
	c.Ev.Coverage.States += res.Distinct
	c.Ev.Coverage.Transitions += res.Generated
	c.mu.Unlock()
	fmt.Printf("  [%s] %d vectors checked against the real codecs (%d encoder drifts) %.0fs\n", purpose, n, drifts, time.Since(c.phaseStart).Seconds())
}

// direction B: values drawn in Go, encoded by the REAL encoders, validated by TLC
func (c *Ctx) runVarintTrace(n int) {
	if !c.phase("trace of real encodings") {
		return
	}
	rng := rand.New(rand.NewSource(c.Seed*53 + 11))
	path := filepath.Join(c.Scratch, "varint-trace.ndjson")
	f, _ := os.Create(path)
	w := bufio.NewWriter(f)
	type line struct {
		Kind  string `json:"kind"`
		Bits  []int  `json:"bits"`
		Bytes []int  `json:"bytes"`
		Size  int    `json:"size"`
	}
	emit := func(kind string, word uint64, b []byte, size int) {
		bs := make([]int, len(b))
		for i, x := range b {
			bs[i] = int(x)
		}
		jb, _ := json.Marshal(line{kind, wordToBits(word), bs, size})
		w.Write(jb)
		w.WriteByte('\n')
	}
	floats := []float64{0, 1, 2, 3, 0.5, 0.25, 1e-300, 1e300, 5e-324, -1, -0.5, -2, math.Inf(1), math.Inf(-1), math.NaN(), math.MaxFloat64, 1 << 52, 1<<53 - 1, 1 << 53, 0.1, math.Pi, -1e-9, 100, 4096, 1.0 / 64}
	lines := 0
	for i := 0; i < n; i++ {
		var word uint64
		switch rng.Intn(4) {
		case 0:
			word = rng.Uint64()
		case 1:
			word = rng.Uint64() >> uint(rng.Intn(64))
		case 2:
			word = 1<<uint(rng.Intn(64)) + uint64(rng.Intn(3)) - 1
		default:
			word = ^(rng.Uint64() >> uint(rng.Intn(64)))
		}
		var b []byte
		enc.EncodeUvarint64(&b, word)
		emit("u", word, b, enc.Uvarint64Size(word))
		b = nil
		enc.EncodeVarint64(&b, int64(word))
		emit("s", word, b, enc.Varint64Size(int64(word)))
		var fv float64
		if i < len(floats) {
			fv = floats[i]
		} else if rng.Intn(2) == 0 {
			fv = float64(rng.Int63n(1 << uint(1+rng.Intn(53))))
		} else {
			fv = math.Float64frombits(rng.Uint64())
		}
		b = nil
		enc.EncodeVarfloat64(&b, fv)
		x := math.Float64bits(fv+1) - math.Float64bits(1) // the documented transform (R)
		emit("f", x, b, enc.Varfloat64Size(fv))
		lines += 3
		// decode side of the float contract: (v+1)-1
		rest := append([]byte{}, b...)
		got, err := enc.DecodeVarfloat64(&rest)
		if err != nil || !sameFloat(got, (fv+1)-1) {
			c.report(&Violation{Pipeline: "varint-trace", Case: map[string]interface{}{"float_bits": math.Float64bits(fv)}, What: fmt.Sprintf("DecodeVarfloat64(EncodeVarfloat64(%v)) = %v, err=%v; documented (v+1)-1 = %v", fv, got, err, (fv+1)-1), Tags: map[string]string{"outcome": "mismatch"}})
		}
		_ = bits.Len64
	}
	w.Flush()
	f.Close()
	cfg := traceVarintCfg
	res := c.runTLC(TLCOpts{Module: "Trace_Varint", Cfg: cfg, Purpose: "trace of real encodings", Workers: 1, Env: []string{"VERIF_TRACE=" + path}, Timeout: 30 * time.Minute,
		Constants: fmt.Sprintf("%d real encodings", lines)})
	if res.Violated != "" {
		lineNo := res.LastL - 1
		keep := filepath.Join(verifRoot, "replays", fmt.Sprintf("%s-varint-trace-%d.ndjson", c.Prop, c.Seed))
		os.MkdirAll(filepath.Dir(keep), 0o755)
		copyFile(path, keep)
		c.report(&Violation{Pipeline: "varint-trace", Case: map[string]interface{}{"trace_file": keep, "line": lineNo}, Step: lineNo,
			What:   fmt.Sprintf("bytes produced by a real encoder (or its size function) differ from Varint.tla at trace line %d", lineNo),
			Actual: json.RawMessage(nthLine(path, lineNo)), Tags: map[string]string{"outcome": "trace-rejected"}})
	} else if res.Distinct != int64(lines)+1 {
		infraFail("Gen_Varint trace consumed %d of %d lines\n%s", res.Distinct-1, lines, res.Output)
	}
	c.mu.Lock()
	c.Ev.Coverage.Traces += int64(lines)
	c.Ev.Coverage.TraceEvents += int64(lines)
	c.Ev.Coverage.Evaluations += int64(lines)
	c.mu.Unlock()
	fmt.Printf("  [trace of real encodings] %d real encodings validated by TLC %.0fs\n", lines, time.Since(c.phaseStart).Seconds())
}

func init() {
	checks["C18"] = func(c *Ctx) {
		c.Ev.Coverage.Rule = "Varint.tla transcribes the uvarint64 / zig-zag varint64 / varfloat64 codecs as byte loops over 64-bit bit vectors; TLC checks V_Corpus (round trip with trailing bytes, 1..9 bytes, size functions, every strict prefix is EOF consuming nothing) over ~650 words (every bit-length class x fill pattern, complements) and V_Strings (never more than 9 bytes consumed, framing) over all byte strings of length <= 2 and structured strings up to length 10. Every vector is one implementation test of the real Encode*/Decode*/size functions (and DecodeVarint32 range rejection, Float64LE framing); values drawn in Go (random words of every length class, integers below 2^53, arbitrary float64 bit patterns incl. NaN, infinities, subnormals, negatives) are encoded by the REAL encoders and TLC validates the bytes and sizes."
		c.Ev.Coverage.CheckerCmd = "./check C18 " + c.Tier
		c.Ev.Assumptions = []string{"the float transform bits(v+1)-bits(1) and (v+1)-1 is applied by the harness (TLA+ has no floats)"}
		c.Ev.Coverage.TrustedBase = []string{"float transform of varfloat64 applied in Go (R)"}
		c.runVarintVectors("BytesEdge", 0, true, "corpus of words")
		c.runVarintVectors("Bytes256", 2, false, "all byte strings of length <= 2")
		c.runVarintVectors("BytesEdge", c.pick(6, 8), false, "structured byte strings")
		c.runVarintVectors("BytesCont", c.pick(9, 10), false, "continuation-heavy byte strings up to length 10")
		c.runVarintTrace(c.pick(1500, 30000))
	}
}
