package main

// Shared infrastructure: running TLC in a scratch directory, parsing its
// output (state counts, coverage, printed behaviours, invariant violations),
// evidence files, known findings and the VIOLATION protocol.

import (
	"bufio"
	"crypto/sha1"
	"encoding/json"
	"fmt"
	"hash/fnv"
	"io"
	"os"
	"os/exec"
	"path/filepath"
	"regexp"
	"sort"
	"strconv"
	"strings"
	"sync"
	"time"
)

// verifRoot is the directory of the ./check script (the working directory it switches to): /verif, or a
// snapshot of it when a long run is started with `vp run`.
var verifRoot = func() string {
	if d, err := os.Getwd(); err == nil {
		if _, err := os.Stat(filepath.Join(d, "spec")); err == nil {
			return d
		}
	}
	return "/verif"
}()

// exit codes: 0 property held on everything explored; 1 violation; 2 infrastructure trouble
func infraFail(format string, a ...interface{}) {
	fmt.Printf("INFRA-ERROR: "+format+"\n", a...)
	os.Exit(2)
}

type Ctx struct {
	Prop       string
	Tier       string
	Seed       int64
	Scratch    string
	Start      time.Time
	Ev         *Evidence
	Workers    int
	phaseStart time.Time

	mu         sync.Mutex
	violations []string // replay paths
	known      map[string]int
	drift      int
	samples    []interface{}
	distinct   map[[16]byte]struct{}
}

func newCtx(prop, tier string) *Ctx {
	seed := int64(1)
	if s := os.Getenv("VERIF_SEED"); s != "" {
		if v, err := strconv.ParseInt(s, 10, 64); err == nil {
			seed = v
		}
	}
	scratch, err := os.MkdirTemp("", "vcheck-"+prop+"-")
	if err != nil {
		infraFail("scratch dir: %v", err)
	}
	workers := 16
	if s := os.Getenv("VERIF_WORKERS"); s != "" {
		if v, err := strconv.Atoi(s); err == nil && v > 0 {
			workers = v
		}
	}
	c := &Ctx{Prop: prop, Tier: tier, Seed: seed, Scratch: scratch, Start: time.Now(), Workers: workers,
		known: map[string]int{}, distinct: map[[16]byte]struct{}{}}
	c.Ev = &Evidence{PropertyID: prop, Tier: tier, Seed: seed, Level: "model_checking"}
	c.Ev.Coverage.TLCRuns = []TLCRunInfo{}
	return c
}

// phase lets a developer run a subset of a check: VERIF_PHASE=<substring of the phase name>
func (c *Ctx) phase(name string) bool {
	f := os.Getenv("VERIF_PHASE")
	ok := f == "" || strings.Contains(name, f)
	if sk := os.Getenv("VERIF_PHASE_SKIP"); sk != "" && strings.HasPrefix(name, sk) { // developer aid: skip phases by name prefix
		ok = false
	}
	if ok {
		c.phaseStart = time.Now()
	}
	return ok
}

func (c *Ctx) cleanup() {
	if os.Getenv("VERIF_KEEP") != "" { // diagnostic: keep traces, generated modules and TLC output
		fmt.Println("scratch kept at", c.Scratch)
		return
	}
	os.RemoveAll(c.Scratch)
}

func (c *Ctx) quick() bool { return c.Tier != "thorough" }

// pick returns q in the quick tier and t in the thorough tier
func (c *Ctx) pick(q, t int) int {
	if c.quick() {
		return q
	}
	return t
}

// addDistinct counts distinct keys by a 128-bit hash (the keys are whole JSON observations: millions of them
// in the thorough tier do not fit in memory as strings)
func (c *Ctx) addDistinct(key string) {
	h := fnv.New128a()
	h.Write([]byte(key))
	var k [16]byte
	h.Sum(k[:0])
	c.mu.Lock()
	c.distinct[k] = struct{}{}
	c.mu.Unlock()
}

func (c *Ctx) addSample(s interface{}) {
	c.mu.Lock()
	if len(c.samples) < 6 {
		c.samples = append(c.samples, s)
	}
	c.mu.Unlock()
}

// ---------------------------------------------------------------------------
// Evidence

type TLCRunInfo struct {
	Module      string           `json:"module"`
	Purpose     string           `json:"purpose"`
	Mode        string           `json:"mode"`
	Generated   int64            `json:"states_generated"`
	Distinct    int64            `json:"distinct_states"`
	Behaviours  int64            `json:"behaviours_emitted,omitempty"`
	Invariants  []string         `json:"invariants,omitempty"`
	Properties  []string         `json:"action_properties,omitempty"`
	Constants   string           `json:"constants,omitempty"`
	WallS       float64          `json:"wall_s"`
	ActionCover map[string]int64 `json:"action_coverage,omitempty"`
}

type Coverage struct {
	States        int64                  `json:"states"`
	Transitions   int64                  `json:"transitions"`
	Traces        int64                  `json:"traces_validated_against_impl"`
	Samples       []interface{}          `json:"samples"`
	Evaluations   int64                  `json:"evaluations"`
	DistinctNT    int64                  `json:"distinct_nontrivial"`
	Rule          string                 `json:"rule"`
	Exhaustive    bool                   `json:"exhaustive"`
	CheckerCmd    string                 `json:"checker_cmd"`
	TrustedBase   []string               `json:"trusted_base"`
	TLCRuns       []TLCRunInfo           `json:"tlc_runs"`
	StepsCompared int64                  `json:"steps_compared_with_impl"`
	Configs       int64                  `json:"replay_configurations"`
	TraceEvents   int64                  `json:"recorded_events_validated_by_tlc"`
	Drift         int                    `json:"conformance_drift"`
	KnownFindings map[string]int         `json:"known_findings_hit,omitempty"`
	Extra         map[string]interface{} `json:"extra,omitempty"`
}

type Evidence struct {
	PropertyID  string   `json:"property_id"`
	Tier        string   `json:"tier"`
	Seed        int64    `json:"seed"`
	Level       string   `json:"level"`
	Coverage    Coverage `json:"coverage"`
	Assumptions []string `json:"assumptions"`
	WallS       float64  `json:"wall_s"`
	Violations  int      `json:"violations"`
}

func (c *Ctx) extra(k string, v interface{}) {
	c.mu.Lock()
	if c.Ev.Coverage.Extra == nil {
		c.Ev.Coverage.Extra = map[string]interface{}{}
	}
	c.Ev.Coverage.Extra[k] = v
	c.mu.Unlock()
}

func (c *Ctx) addExtraCount(k string, n int64) {
	c.mu.Lock()
	if c.Ev.Coverage.Extra == nil {
		c.Ev.Coverage.Extra = map[string]interface{}{}
	}
	old, _ := c.Ev.Coverage.Extra[k].(int64)
	c.Ev.Coverage.Extra[k] = old + n
	c.mu.Unlock()
}

func (c *Ctx) writeEvidence() {
	ev := c.Ev
	ev.WallS = time.Since(c.Start).Seconds()
	ev.Violations = len(c.violations)
	ev.Coverage.Samples = c.samples
	if len(ev.Coverage.Samples) == 0 {
		ev.Coverage.Samples = []interface{}{"(no behaviour was generated)"}
	}
	ev.Coverage.DistinctNT = int64(len(c.distinct))
	ev.Coverage.Drift = c.drift
	if len(c.known) > 0 {
		ev.Coverage.KnownFindings = c.known
	}
	ev.Coverage.TrustedBase = append([]string{"TLC 2 (tla2tools 1.8.0) and the TLA+ CommunityModules",
		"Go projection functions of the harness (public API calls only)"}, ev.Coverage.TrustedBase...)
	evDir := filepath.Join(verifRoot, "evidence")
	if d := os.Getenv("VERIF_EVIDENCE_DIR"); d != "" {
		evDir = d // runs against deliberately broken trees (tools/try_seed.sh) must not touch the registered evidence
	}
	os.MkdirAll(evDir, 0o755)
	b, _ := json.MarshalIndent(ev, "", " ")
	name := c.Prop + ".json"
	if os.Getenv("VERIF_PHASE") != "" || os.Getenv("VERIF_PHASE_SKIP") != "" {
		name = c.Prop + ".partial.json" // developer run of a subset of the phases: never the registered evidence
	}
	if err := os.WriteFile(filepath.Join(evDir, name), b, 0o644); err != nil {
		infraFail("write evidence: %v", err)
	}
}

// ---------------------------------------------------------------------------
// Known findings (read-only at run time)

type Finding struct {
	Property string            `json:"property"`
	Status   string            `json:"status"` // open | fixed
	Commit   string            `json:"commit,omitempty"`
	What     string            `json:"what"`
	Match    map[string]string `json:"match,omitempty"`
}

func loadFindings() []Finding {
	b, err := os.ReadFile(filepath.Join(verifRoot, "known_findings.json"))
	if err != nil {
		return nil
	}
	var fs []Finding
	if err := json.Unmarshal(b, &fs); err != nil {
		infraFail("known_findings.json: %v", err)
	}
	return fs
}

// A mismatch carries a set of descriptive tags; an OPEN finding suppresses it
// only if every key of its match is present with the same value.
func (c *Ctx) matchFinding(tags map[string]string) *Finding {
	for _, f := range loadFindings() {
		if f.Status != "open" || f.Property != c.Prop || len(f.Match) == 0 {
			continue
		}
		ok := true
		for k, v := range f.Match {
			if tags[k] != v {
				ok = false
				break
			}
		}
		if ok {
			ff := f
			return &ff
		}
	}
	return nil
}

// ---------------------------------------------------------------------------
// Violations

type Violation struct {
	Property string                 `json:"property"`
	Tier     string                 `json:"tier"`
	Seed     int64                  `json:"seed"`
	Pipeline string                 `json:"pipeline"` // which replayer understands this file
	Config   interface{}            `json:"config"`
	Case     interface{}            `json:"case"` // behaviour / trace / vector
	Step     int                    `json:"step"`
	What     string                 `json:"what"`
	Expected interface{}            `json:"expected,omitempty"`
	Actual   interface{}            `json:"actual,omitempty"`
	Tags     map[string]string      `json:"tags,omitempty"`
	Extra    map[string]interface{} `json:"extra,omitempty"`
}

// report records a disagreement between the real code and what the property
// allows. Known open findings are printed as KNOWN-FINDING and do not count.
func (c *Ctx) report(v *Violation) {
	v.Property, v.Tier, v.Seed = c.Prop, c.Tier, c.Seed
	c.mu.Lock()
	defer c.mu.Unlock()
	if f := c.matchFinding(v.Tags); f != nil {
		if c.known[f.What] == 0 {
			fmt.Printf("KNOWN-FINDING: property=%s %s\n", c.Prop, f.What)
		}
		c.known[f.What]++
		return
	}
	if len(c.violations) >= 5 {
		c.violations = append(c.violations, "")
		return
	}
	b, err := json.MarshalIndent(v, "", " ")
	if err != nil {
		// the observed value is not representable in JSON (NaN, +-Inf): keep it as text, the replay needs the case only
		v.Actual = fmt.Sprintf("%v", v.Actual)
		if b, err = json.MarshalIndent(v, "", " "); err != nil {
			v.Expected = fmt.Sprintf("%v", v.Expected)
			b, _ = json.MarshalIndent(v, "", " ")
		}
	}
	sum := sha1.Sum(b)
	os.MkdirAll(filepath.Join(verifRoot, "replays"), 0o755)
	path := filepath.Join(verifRoot, "replays", fmt.Sprintf("%s-%x.json", c.Prop, sum[:6]))
	os.WriteFile(path, b, 0o644)
	c.violations = append(c.violations, path)
	fmt.Printf("VIOLATION property=%s replay=%s\n", c.Prop, path)
	fmt.Printf("  what: %s (step %d)\n", v.What, v.Step)
	if v.Expected != nil {
		eb, _ := json.Marshal(v.Expected)
		ab, _ := json.Marshal(v.Actual)
		fmt.Printf("  expected: %.600s\n  actual:   %.600s\n", eb, ab)
	}
}

func (c *Ctx) driftNote(format string, a ...interface{}) {
	c.mu.Lock()
	if c.drift < 5 {
		fmt.Printf("CONFORMANCE-DRIFT property=%s "+format+"\n", append([]interface{}{c.Prop}, a...)...)
	}
	c.drift++
	c.mu.Unlock()
}

func (c *Ctx) finish() {
	c.writeEvidence()
	c.cleanup()
	if len(c.violations) > 0 {
		fmt.Printf("%s %s: %d violation(s)\n", c.Prop, c.Tier, len(c.violations))
		os.Exit(1)
	}
	fmt.Printf("%s %s: OK  states=%d transitions=%d traces_vs_impl=%d steps=%d distinct=%d wall=%.1fs\n", c.Prop, c.Tier,
		c.Ev.Coverage.States, c.Ev.Coverage.Transitions, c.Ev.Coverage.Traces, c.Ev.Coverage.StepsCompared,
		len(c.distinct), time.Since(c.Start).Seconds())
	os.Exit(0)
}

// ---------------------------------------------------------------------------
// TLC runner

type TLCOpts struct {
	Module    string // root module file name without .tla (must exist in spec/ or be given in ExtraFiles)
	Cfg       string // cfg text
	Purpose   string // free text for the evidence
	Simulate  bool
	Num       int // simulate: number of traces
	Depth     int // simulate: trace depth
	Seed      int64
	Workers   int
	Timeout   time.Duration
	Coverage  bool
	Extra     map[string]string // extra files (name -> content) written to the run dir
	Env       []string
	OnTable   func(line []byte) // called for every "TABLE" line
	OnBeh     func(line []byte) // called for every "BEH" line (JSON payload, unescaped), possibly concurrently? no: sequentially
	DFS       bool
	Constants string
}

type TLCResult struct {
	Generated, Distinct int64
	Behaviours          int64
	Violated            string // name of violated invariant/property ("" if none)
	Output              string // tail of output
	ActionCover         map[string]int64
	ErrorText           string
	TraceDump           string
	LastL               int // last value of the trace position variable `l` printed in a counterexample
}

var reStates = regexp.MustCompile(`^(\d+) states generated, (\d+) distinct states found`)
var reSimStates = regexp.MustCompile(`The number of states generated: (\d+)`)
var reViol = regexp.MustCompile(`Invariant (\S+) is violated|Action property (\S+) is violated|Temporal properties were violated`)
var reCover = regexp.MustCompile(`^<(\w+) line \d+, col \d+ to line \d+, col \d+ of module (\w+)>: (\d+):(\d+)`)

func specDir() string { return filepath.Join(verifRoot, "spec") }

var tlcSeq int
var tlcSeqMu sync.Mutex

func (c *Ctx) runTLC(o TLCOpts) *TLCResult {
	tlcSeqMu.Lock()
	tlcSeq++
	dir := filepath.Join(c.Scratch, fmt.Sprintf("tlc%03d", tlcSeq))
	tlcSeqMu.Unlock()
	os.MkdirAll(dir, 0o755)
	// copy all spec modules
	ents, err := os.ReadDir(specDir())
	if err != nil {
		infraFail("spec dir: %v", err)
	}
	for _, e := range ents {
		if strings.HasSuffix(e.Name(), ".tla") {
			b, _ := os.ReadFile(filepath.Join(specDir(), e.Name()))
			os.WriteFile(filepath.Join(dir, e.Name()), b, 0o644)
		}
	}
	for name, content := range o.Extra {
		os.WriteFile(filepath.Join(dir, name), []byte(content), 0o644)
	}
	os.WriteFile(filepath.Join(dir, "run.cfg"), []byte(o.Cfg), 0o644)
	if d := os.Getenv("VERIF_DUMPCFG"); d != "" {
		// keep a copy of the exact configuration (and generated root module) of every TLC run, for running it by hand
		os.MkdirAll(d, 0o755)
		clean := func(s string) string {
			out := []rune{}
			for _, r := range s {
				if (r >= 'a' && r <= 'z') || (r >= 'A' && r <= 'Z') || (r >= '0' && r <= '9') {
					out = append(out, r)
				} else if len(out) > 0 && out[len(out)-1] != '_' {
					out = append(out, '_')
				}
			}
			if len(out) > 60 {
				out = out[:60]
			}
			return string(out)
		}
		base := fmt.Sprintf("%s__%s__%s", c.Prop, o.Module, clean(o.Purpose))
		hdr := fmt.Sprintf("\\* %s %s: %s\n\\* run by hand:  cd spec && tlc -workers 8 %s.tla -config cfg/%s.cfg", c.Prop, c.Tier, o.Purpose, o.Module, base)
		if o.Simulate {
			hdr += fmt.Sprintf(" -simulate num=%d -depth %d -seed %d", o.Num, o.Depth, o.Seed)
		}
		if len(o.Extra) > 0 {
			hdr += "   (root module generated by the harness: see the .tla file next to this one; copy it to spec/ first)"
		}
		os.WriteFile(filepath.Join(d, base+".cfg"), []byte(hdr+"\n"+o.Cfg), 0o644)
		for name, content := range o.Extra {
			os.WriteFile(filepath.Join(d, base+"__"+name), []byte(content), 0o644)
		}
	}
	workers := o.Workers
	if workers == 0 {
		workers = c.Workers
	}
	args := []string{"-XX:+UseParallelGC", "-Xss64m", "-Djava.io.tmpdir=" + dir}
	if o.DFS {
		args = append(args, "-Dtlc2.tool.queue.IStateQueue=StateDeque")
	}
	args = append(args, "-cp", "/opt/veriftools/tla/tla2tools.jar:/opt/veriftools/tla/CommunityModules-deps.jar", "tlc2.TLC",
		"-workers", strconv.Itoa(workers), "-metadir", filepath.Join(dir, "meta"), "-config", "run.cfg", "-noGenerateSpecTE")
	if o.Simulate {
		args = append(args, "-simulate", fmt.Sprintf("num=%d", o.Num), "-depth", strconv.Itoa(o.Depth))
	}
	if o.Seed != 0 {
		args = append(args, "-seed", strconv.FormatInt(o.Seed, 10))
	}
	if o.Coverage {
		args = append(args, "-coverage", "1")
	}
	args = append(args, o.Module+".tla")
	timeout := o.Timeout
	if timeout == 0 {
		timeout = 60 * time.Minute
	}
	cmd := exec.Command("java", args...)
	cmd.Dir = dir
	cmd.Env = append(os.Environ(), o.Env...)
	stdout, _ := cmd.StdoutPipe()
	cmd.Stderr = cmd.Stdout
	start := time.Now()
	if err := cmd.Start(); err != nil {
		infraFail("start TLC: %v", err)
	}
	timer := time.AfterFunc(timeout, func() { cmd.Process.Kill() })
	res := &TLCResult{ActionCover: map[string]int64{}}
	var tail []string
	rd := bufio.NewReaderSize(stdout, 1<<20)
	inError := false
	var errLines []string
	for {
		line, err := readLine(rd)
		if len(line) > 0 {
			if bytesHasPrefix(line, `<<"TABLE", "`) {
				if o.OnTable != nil {
					o.OnTable(unescapeTLA(line[len(`<<"TABLE", "`) : len(line)-len(`">>`)]))
				}
			} else if bytesHasPrefix(line, `<<"BEH", "`) {
				res.Behaviours++
				if o.OnBeh != nil {
					o.OnBeh(unescapeTLA(line[len(`<<"BEH", "`) : len(line)-len(`">>`)]))
				}
			} else {
				s := string(line)
				if m := reStates.FindStringSubmatch(s); m != nil {
					res.Generated, _ = strconv.ParseInt(m[1], 10, 64)
					res.Distinct, _ = strconv.ParseInt(m[2], 10, 64)
				} else if m := reSimStates.FindStringSubmatch(s); m != nil {
					res.Generated, _ = strconv.ParseInt(m[1], 10, 64)
				} else if m := reViol.FindStringSubmatch(s); m != nil {
					res.Violated = m[1] + m[2]
					if res.Violated == "" {
						res.Violated = "temporal"
					}
					inError = true
				} else if m := reCover.FindStringSubmatch(s); m != nil {
					n, _ := strconv.ParseInt(m[4], 10, 64)
					res.ActionCover[m[2]+"!"+m[1]] += n
				} else if strings.HasPrefix(s, "Error:") {
					inError = true
				}
				if inError && len(s) > 7 && s[:7] == `/\ l = ` {
					if v, err := strconv.Atoi(strings.TrimSpace(s[7:])); err == nil {
						res.LastL = v
					}
				}
				if inError && len(errLines) < 400 {
					errLines = append(errLines, s)
				}
				if len(s) < 2000 {
					tail = append(tail, s)
					if len(tail) > 60 {
						tail = tail[1:]
					}
				}
			}
		}
		if err != nil {
			break
		}
	}
	werr := cmd.Wait()
	timedOut := !timer.Stop()
	res.Output = strings.Join(tail, "\n")
	res.ErrorText = strings.Join(errLines, "\n")
	wall := time.Since(start).Seconds()
	if timedOut {
		infraFail("TLC timed out after %v on %s (%s)\n%s", timeout, o.Module, o.Purpose, res.Output)
	}
	if werr != nil && res.Violated == "" {
		// exit code 12 = safety violation, 13 liveness; anything else without a named violation is infrastructure
		et := res.ErrorText
		if len(et) > 3000 {
			et = et[:3000]
		}
		infraFail("TLC failed on %s (%s): %v\n%s\n...\n%s", o.Module, o.Purpose, werr, et, lastLines(res.Output, 6))
	}
	mode := "exhaustive"
	if o.Simulate {
		mode = fmt.Sprintf("simulate num=%d depth=%d seed=%d", o.Num, o.Depth, o.Seed)
	}
	c.mu.Lock()
	info := TLCRunInfo{Module: o.Module, Purpose: o.Purpose, Mode: mode, Generated: res.Generated, Distinct: res.Distinct,
		Behaviours: res.Behaviours, WallS: wall, Constants: o.Constants}
	info.Invariants, info.Properties = cfgNames(o.Cfg)
	if o.Coverage {
		info.ActionCover = res.ActionCover
	}
	if len(c.Ev.Coverage.TLCRuns) < 40 {
		c.Ev.Coverage.TLCRuns = append(c.Ev.Coverage.TLCRuns, info)
	}
	c.mu.Unlock()
	if os.Getenv("VERIF_KEEP") == "" {
		os.RemoveAll(dir)
	}
	return res
}

func (c *Ctx) runTLCTable(o TLCOpts, f func(line []byte)) *TLCResult {
	o.OnTable = f
	return c.runTLC(o)
}

func cfgNames(cfg string) (inv, props []string) {
	for _, l := range strings.Split(cfg, "\n") {
		f := strings.Fields(l)
		if len(f) > 1 && (f[0] == "INVARIANTS" || f[0] == "INVARIANT") {
			inv = append(inv, f[1:]...)
		}
		if len(f) > 1 && (f[0] == "PROPERTIES" || f[0] == "PROPERTY") {
			props = append(props, f[1:]...)
		}
	}
	return
}

// runMC runs an exhaustive model-checking configuration; a violated invariant
// of the SPECIFICATION (not of the code) is reported as infrastructure failure
// unless handler is given.
func (c *Ctx) runMC(o TLCOpts) *TLCResult {
	res := c.runTLC(o)
	if res.Violated != "" {
		infraFail("specification %s (%s) violates %s - the model itself is wrong or describes a design defect:\n%s",
			o.Module, o.Purpose, res.Violated, res.ErrorText)
	}
	c.mu.Lock()
	c.Ev.Coverage.States += res.Distinct
	c.Ev.Coverage.Transitions += res.Generated
	c.mu.Unlock()
	if o.Coverage {
		for k, v := range res.ActionCover {
			if v == 0 && !strings.Contains(k, "Init") {
				infraFail("vacuous model: action %s of %s (%s) was never taken", k, o.Module, o.Purpose)
			}
		}
	}
	return res
}

func lastLines(s string, n int) string {
	ls := strings.Split(s, "\n")
	if len(ls) > n {
		ls = ls[len(ls)-n:]
	}
	return strings.Join(ls, "\n")
}

func readLine(rd *bufio.Reader) ([]byte, error) {
	var out []byte
	for {
		chunk, isPrefix, err := rd.ReadLine()
		out = append(out, chunk...)
		if err != nil {
			if err == io.EOF && len(out) > 0 {
				return out, err
			}
			return out, err
		}
		if !isPrefix {
			return out, nil
		}
	}
}

func bytesHasPrefix(b []byte, p string) bool {
	return len(b) >= len(p) && string(b[:len(p)]) == p
}

// unescapeTLA undoes the string escaping TLC applies when printing a string value
func unescapeTLA(b []byte) []byte {
	out := make([]byte, 0, len(b))
	for i := 0; i < len(b); i++ {
		if b[i] == '\\' && i+1 < len(b) {
			i++
			switch b[i] {
			case 'n':
				out = append(out, '\n')
			case 't':
				out = append(out, '\t')
			default:
				out = append(out, b[i])
			}
			continue
		}
		out = append(out, b[i])
	}
	return out
}

// ---------------------------------------------------------------------------
// small helpers

func sortedKeys(m map[string]int64) []string {
	ks := make([]string, 0, len(m))
	for k := range m {
		ks = append(ks, k)
	}
	sort.Strings(ks)
	return ks
}

func tlaSet(xs []int) string {
	ss := make([]string, len(xs))
	for i, x := range xs {
		ss[i] = strconv.Itoa(x)
	}
	return "{" + strings.Join(ss, ", ") + "}"
}

func tlaStrSet(xs []string) string {
	ss := make([]string, len(xs))
	for i, x := range xs {
		ss[i] = strconv.Quote(x)
	}
	return "{" + strings.Join(ss, ", ") + "}"
}

func tlaPairs(ps [][2]int) string {
	ss := make([]string, len(ps))
	for i, p := range ps {
		ss[i] = fmt.Sprintf("<<%d, %d>>", p[0], p[1])
	}
	return "{" + strings.Join(ss, ", ") + "}"
}

// parallelFor runs f(i) for i in [0,n) on w goroutines
func parallelFor(n, w int, f func(i int)) {
	if w < 1 {
		w = 1
	}
	var wg sync.WaitGroup
	ch := make(chan int, 64)
	for k := 0; k < w; k++ {
		wg.Add(1)
		go func() {
			defer wg.Done()
			for i := range ch {
				f(i)
			}
		}()
	}
	for i := 0; i < n; i++ {
		ch <- i
	}
	close(ch)
	wg.Wait()
}
