package main

// Store pipeline (Store.tla): adapter from model events to the real stores,
// projection of a real store through its public API, comparison with the
// specification's prediction, behaviour generation configs.

import (
	"encoding/json"
	"fmt"
	"math"
	"sort"
	"strings"

	enc "github.com/DataDog/sketches-go/ddsketch/encoding"
	"github.com/DataDog/sketches-go/ddsketch/pb/sketchpb"
	"github.com/DataDog/sketches-go/ddsketch/store"
	"google.golang.org/protobuf/proto"
)

// ---- model side (JSON emitted by Gen_Store) --------------------------------

type StoreEvent struct {
	Op  string `json:"op"`
	S   int    `json:"s"`
	T   int    `json:"t"`
	I   int    `json:"i"`
	W   int    `json:"w"`
	Num int    `json:"num"`
	Den int    `json:"den"`
}

type pairList [][2]int

// TLC prints an empty sequence as [] but an empty function may come as {}
func (p *pairList) UnmarshalJSON(b []byte) error {
	s := strings.TrimSpace(string(b))
	if s == "{}" || s == "null" {
		*p = nil
		return nil
	}
	var x [][2]int
	if err := json.Unmarshal(b, &x); err != nil {
		return err
	}
	*p = x
	return nil
}

type StoreObs struct {
	Kind  string   `json:"kind"`
	N     int      `json:"n"`
	Empty bool     `json:"empty"`
	Total int      `json:"total"`
	Min   int      `json:"min"`
	Max   int      `json:"max"`
	Bins  pairList `json:"bins"`
	Kar   pairList `json:"kar"`
}

type StoreStep struct {
	Ev   StoreEvent `json:"ev"`
	Pred []StoreObs `json:"pred"`
}

type ModelKind struct {
	Kind string `json:"kind"`
	N    int    `json:"n"`
}

// ---- replay configuration --------------------------------------------------

type StoreCfg struct {
	Init   []ModelKind `json:"init"`   // model kind of each slot at start
	Exact  []string    `json:"exact"`  // real type used for "exact" slots: dense | sparse | paged
	Base   int         `json:"base"`   // index embedding sigma(k) = Base + k*Stride
	Stride int         `json:"stride"` //
	Q      int         `json:"q"`      // quanta per unit weight
	Mode   string      `json:"mode"`   // every: project all slots after every step; final: only after the last one
	Proto  int         `json:"proto"`  // 0: ToProto message, 1: EncodeProto bytes unmarshalled
	// Twin selects a real-vs-real differential verdict instead of the comparison with the prediction:
	//  "clear": a second execution replaces every Clear by a brand-new store; all slots must agree after every step (C15)
	//  "reweight": the bins just after Reweight(f) must be f times the bins just before (C16)
	Twin string `json:"twin,omitempty"`
}

func (c StoreCfg) sigma(k int) int { return c.Base + k*c.Stride }

func newRealStore(mk ModelKind, exact string) store.Store {
	switch mk.Kind {
	case "low":
		return store.NewCollapsingLowestDenseStore(mk.N)
	case "high":
		return store.NewCollapsingHighestDenseStore(mk.N)
	}
	switch exact {
	case "dense":
		return store.NewDenseStore()
	case "sparse":
		return store.NewSparseStore()
	case "paged":
		return store.NewBufferedPaginatedStore()
	}
	panic("unknown real store kind " + exact)
}

func realKindName(s store.Store) string {
	switch s.(type) {
	case *store.DenseStore:
		return "dense"
	case *store.SparseStore:
		return "sparse"
	case *store.BufferedPaginatedStore:
		return "paged"
	case *store.CollapsingLowestDenseStore:
		return "low"
	case *store.CollapsingHighestDenseStore:
		return "high"
	}
	return fmt.Sprintf("%T", s)
}

// ---- projection of a real store through its public API ---------------------

type RealStoreObs struct {
	Empty    bool         `json:"empty"`
	Total    float64      `json:"total"`
	Min      int          `json:"min"`
	MinErr   bool         `json:"minErr"`
	Max      int          `json:"max"`
	MaxErr   bool         `json:"maxErr"`
	ForEach  [][2]float64 `json:"forEach"` // index, weight in iteration order
	BinsCh   [][2]float64 `json:"bins"`
	Kar      [][2]float64 `json:"kar"` // rank, index
	Problems []string     `json:"problems,omitempty"`
}

func projectStore(s store.Store, ranks []float64) (o RealStoreObs) {
	o.Empty = s.IsEmpty()
	o.Total = s.TotalCount()
	var err error
	o.Min, err = s.MinIndex()
	o.MinErr = err != nil
	o.Max, err = s.MaxIndex()
	o.MaxErr = err != nil
	s.ForEach(func(index int, count float64) bool {
		o.ForEach = append(o.ForEach, [2]float64{float64(index), count})
		return false
	})
	for b := range s.Bins() {
		o.BinsCh = append(o.BinsCh, [2]float64{float64(b.Index()), b.Count()})
	}
	for _, r := range ranks {
		o.Kar = append(o.Kar, [2]float64{r, float64(s.KeyAtRank(r))})
	}
	return
}

// compareStore checks the projection of a real store against the prediction
// (exact equality: weights are dyadic so float arithmetic is exact).
func compareStore(pred *StoreObs, s store.Store, cfg *StoreCfg) (string, *RealStoreObs) {
	q := float64(cfg.Q)
	ranks := make([]float64, len(pred.Kar))
	for i, p := range pred.Kar {
		ranks[i] = float64(p[0]) / (2 * q)
	}
	o := projectStore(s, ranks)
	if o.Empty != pred.Empty {
		return fmt.Sprintf("IsEmpty=%v, specification says %v", o.Empty, pred.Empty), &o
	}
	if o.Total*q != float64(pred.Total) {
		return fmt.Sprintf("TotalCount=%v, specification says %v", o.Total, float64(pred.Total)/q), &o
	}
	if pred.Empty {
		if !o.MinErr || !o.MaxErr {
			return "MinIndex/MaxIndex of an empty store did not return an error", &o
		}
	} else {
		if o.MinErr || o.Min != cfg.sigma(pred.Min) {
			return fmt.Sprintf("MinIndex=%d (err=%v), specification says %d", o.Min, o.MinErr, cfg.sigma(pred.Min)), &o
		}
		if o.MaxErr || o.Max != cfg.sigma(pred.Max) {
			return fmt.Sprintf("MaxIndex=%d (err=%v), specification says %d", o.Max, o.MaxErr, cfg.sigma(pred.Max)), &o
		}
	}
	want := map[int]float64{}
	for _, b := range pred.Bins {
		want[cfg.sigma(b[0])] = float64(b[1]) / q
	}
	for name, got := range map[string][][2]float64{"ForEach": o.ForEach, "Bins": o.BinsCh} {
		seen := map[int]bool{}
		for _, b := range got {
			idx := int(b[0])
			if seen[idx] {
				return fmt.Sprintf("%s yields index %d twice", name, idx), &o
			}
			seen[idx] = true
			if !(b[1] > 0) {
				return fmt.Sprintf("%s yields index %d with non-positive weight %v", name, idx, b[1]), &o
			}
			if w, ok := want[idx]; !ok || w != b[1] {
				return fmt.Sprintf("%s yields weight %v at index %d, specification says %v", name, b[1], idx, want[idx]), &o
			}
		}
		if len(got) != len(want) {
			return fmt.Sprintf("%s yields %d bins, specification says %d", name, len(got), len(want)), &o
		}
	}
	// the bin stream is documented as ordered by the dense/paged/sparse implementations; order is not part of C04
	for i, p := range pred.Kar {
		if int(o.Kar[i][1]) != cfg.sigma(p[1]) {
			return fmt.Sprintf("KeyAtRank(%v)=%d, specification says %d", ranks[i], int(o.Kar[i][1]), cfg.sigma(p[1])), &o
		}
	}
	return "", &o
}

// ---- applying a model event to real stores ---------------------------------

type storeWorld struct {
	cfg *StoreCfg
	st  []store.Store // index = slot-1
}

func newStoreWorld(cfg *StoreCfg) *storeWorld {
	w := &storeWorld{cfg: cfg}
	for i, mk := range cfg.Init {
		w.st = append(w.st, newRealStore(mk, cfg.Exact[i]))
	}
	return w
}

// apply executes one model event; a returned string describes a failure that
// is visible in the call itself (error return, leftover bytes).
func (w *storeWorld) apply(e *StoreEvent) (problem string) {
	q := float64(w.cfg.Q)
	switch e.Op {
	case "Add":
		w.st[e.S-1].Add(w.cfg.sigma(e.I))
	case "AddWithCount":
		w.st[e.S-1].AddWithCount(w.cfg.sigma(e.I), float64(e.W)/q)
	case "AddBin":
		b, err := store.NewBin(w.cfg.sigma(e.I), float64(e.W)/q)
		if err != nil {
			return "NewBin refused a non-negative weight: " + err.Error()
		}
		w.st[e.S-1].AddBin(*b)
	case "AddRepeat":
		for k := 0; k < e.Num; k++ {
			w.st[e.S-1].Add(w.cfg.sigma(e.I))
		}
	case "Merge":
		w.st[e.T-1].MergeWith(w.st[e.S-1])
	case "CopyTo":
		w.st[e.T-1] = w.st[e.S-1].Copy()
	case "Clear":
		w.st[e.S-1].Clear()
	case "Reweight":
		if err := w.st[e.S-1].Reweight(float64(e.Num) / float64(e.Den)); err != nil {
			return "Reweight by a positive factor returned an error: " + err.Error()
		}
	case "EncDec":
		prefix := []byte{0xde, 0xad}
		b := append([]byte{}, prefix...)
		w.st[e.S-1].Encode(&b, enc.FlagTypePositiveStore)
		if len(b) < 2 || b[0] != 0xde || b[1] != 0xad {
			return "Encode changed the bytes already in the buffer"
		}
		rest := b[2:]
		for len(rest) > 0 {
			fl, err := enc.DecodeFlag(&rest)
			if err != nil {
				return "DecodeFlag: " + err.Error()
			}
			if fl.Type() != enc.FlagTypePositiveStore {
				return fmt.Sprintf("store encoding contains a block of another flag type (%v)", fl)
			}
			if err := w.st[e.T-1].DecodeAndMergeWith(&rest, fl.SubFlag()); err != nil {
				return "DecodeAndMergeWith of a complete encoding returned an error: " + err.Error()
			}
		}
	case "Proto":
		var msg *sketchpb.Store
		if w.cfg.Proto == 0 {
			msg = w.st[e.S-1].ToProto()
		} else {
			m, p := storeProtoViaBuilder(w.st[e.S-1])
			if p != "" {
				return p
			}
			msg = m
		}
		store.MergeWithProto(w.st[e.T-1], msg)
	case "Read":
		s := w.st[e.S-1]
		n := 0
		s.ForEach(func(int, float64) bool { n++; return n >= 2 })
		for range s.Bins() {
		}
		if !s.IsEmpty() {
			s.KeyAtRank(0.5)
			s.KeyAtRank(s.TotalCount())
		}
		s.TotalCount()
		s.MinIndex()
		s.MaxIndex()
		_ = s.ToProto()
		storeProtoViaBuilder(s)
		var b []byte
		s.Encode(&b, enc.FlagTypeNegativeStore)
		c := s.Copy()
		c.Add(w.cfg.sigma(0)) // mutate the discarded copy: must not affect the original
		c.Clear()
	default:
		panic("unknown store op " + e.Op)
	}
	return ""
}

// storeProtoViaBuilder runs the allocation-free streaming writer and unmarshals its bytes.
func storeProtoViaBuilder(s store.Store) (*sketchpb.Store, string) {
	var buf writerBuf
	b := sketchpb.NewStoreBuilder(&buf)
	s.EncodeProto(b)
	msg := &sketchpb.Store{}
	if err := proto.Unmarshal(buf.b, msg); err != nil {
		return nil, "bytes written by EncodeProto do not unmarshal: " + err.Error()
	}
	return msg, ""
}

type writerBuf struct{ b []byte }

func (w *writerBuf) Write(p []byte) (int, error) { w.b = append(w.b, p...); return len(p), nil }

// ---- replaying one behaviour -----------------------------------------------

type StoreMismatch struct {
	Step   int
	Slot   int
	What   string
	Pred   *StoreObs
	Actual *RealStoreObs
	Tags   map[string]string
}

func normObs(o *RealStoreObs) string {
	fe := append([][2]float64{}, o.ForEach...)
	sort.Slice(fe, func(i, j int) bool { return fe[i][0] < fe[j][0] })
	bs := append([][2]float64{}, o.BinsCh...)
	sort.Slice(bs, func(i, j int) bool { return bs[i][0] < bs[j][0] })
	return fmt.Sprintf("empty=%v total=%v min=%d/%v max=%d/%v forEach=%v bins=%v kar=%v", o.Empty, o.Total, o.Min, o.MinErr, o.Max, o.MaxErr, fe, bs, o.Kar)
}

func probeRanks(pred *StoreObs, q int) []float64 {
	ranks := make([]float64, len(pred.Kar))
	for i, p := range pred.Kar {
		ranks[i] = float64(p[0]) / (2 * float64(q))
	}
	return ranks
}

func replayStore(beh []StoreStep, cfg *StoreCfg) (mm *StoreMismatch) {
	w := newStoreWorld(cfg)
	var wB *storeWorld
	if cfg.Twin == "clear" {
		wB = newStoreWorld(cfg)
	}
	step := 0
	var cur *StoreEvent
	defer func() {
		if r := recover(); r != nil {
			mm = &StoreMismatch{Step: step, What: fmt.Sprintf("panic: %v", r), Tags: storeTags(w, cur, "panic")}
		}
	}()
	for i := range beh {
		step = i + 1
		cur = &beh[i].Ev
		tags := storeTags(w, cur, "mismatch") // computed before the event changes the receiver
		var before map[int]float64
		if cfg.Twin == "reweight" && cur.Op == "Reweight" {
			before = map[int]float64{}
			w.st[cur.S-1].ForEach(func(i int, c float64) bool { before[i] += c; return false })
		}
		if p := w.apply(cur); p != "" {
			return &StoreMismatch{Step: step, What: p, Tags: tags}
		}
		switch cfg.Twin {
		case "clear":
			if cur.Op == "Clear" {
				wB.st[cur.S-1] = freshStoreLike(wB.st[cur.S-1])
			} else {
				wB.apply(cur)
			}
			for s := range w.st {
				ranks := probeRanks(&beh[i].Pred[s], cfg.Q)
				if w.st[s].IsEmpty() || wB.st[s].IsEmpty() {
					ranks = nil
				}
				a, b := projectStore(w.st[s], ranks), projectStore(wB.st[s], ranks)
				if na, nb := normObs(&a), normObs(&b); na != nb {
					tags["aspect"] = "clear"
					return &StoreMismatch{Step: step, Slot: s + 1, What: fmt.Sprintf("slot %d (%s): a store reused after Clear answers differently from a brand-new store given the same later history:\nreused: %s\nnew:    %s", s+1, realKindName(w.st[s]), na, nb), Tags: tags}
				}
			}
			continue
		case "reweight":
			if cur.Op == "Reweight" {
				f := float64(cur.Num) / float64(cur.Den)
				after := map[int]float64{}
				w.st[cur.S-1].ForEach(func(i int, c float64) bool { after[i] += c; return false })
				bad := len(after) != len(before)
				for k, v := range before {
					if after[k] != v*f {
						bad = true
					}
				}
				tot := 0.0
				for _, v := range before {
					tot += v
				}
				if bad || w.st[cur.S-1].TotalCount() != tot*f {
					tags["aspect"] = "reweight"
					return &StoreMismatch{Step: step, Slot: cur.S, What: fmt.Sprintf("slot %d (%s): Reweight(%v) turned bins %v (total %v) into %v (total %v)", cur.S, realKindName(w.st[cur.S-1]), f, before, tot, after, w.st[cur.S-1].TotalCount()), Tags: tags}
				}
			}
			continue
		}
		if cfg.Mode == "final" && i != len(beh)-1 {
			continue
		}
		for s := range w.st {
			if d, act := compareStore(&beh[i].Pred[s], w.st[s], cfg); d != "" {
				return &StoreMismatch{Step: step, Slot: s + 1, What: fmt.Sprintf("slot %d (%s): %s", s+1, realKindName(w.st[s]), d),
					Pred: &beh[i].Pred[s], Actual: act, Tags: tags}
			}
		}
	}
	return nil
}

func storeTags(w *storeWorld, e *StoreEvent, outcome string) map[string]string {
	t := map[string]string{"outcome": outcome}
	if e == nil {
		return t
	}
	t["op"] = e.Op
	recv := e.S
	if e.Op == "Merge" || e.Op == "EncDec" || e.Op == "Proto" || e.Op == "CopyTo" {
		recv = e.T
		if e.S >= 1 && e.S <= len(w.st) {
			t["argKind"] = realKindName(w.st[e.S-1])
		}
	}
	if recv >= 1 && recv <= len(w.st) {
		t["recvKind"] = realKindName(w.st[recv-1])
		func() {
			defer func() { recover() }()
			t["recvEmpty"] = fmt.Sprint(w.st[recv-1].IsEmpty())
		}()
	}
	return t
}

// ---- behaviour generation --------------------------------------------------

type StoreGen struct {
	Kinds    []ModelKind
	Keys     []int
	Q        int
	Weights  []int
	Repeats  []int
	Factors  [][2]int
	Ops      []string
	Depth    int
	Simulate bool
	Num      int
	Twin     string // differential verdict (see StoreCfg.Twin)
	// directed scenario (Gen_Store!Directed): indexes offered per slot, slots filled in ascending/descending order,
	// and the <<source, receiver>> pairs offered to two-slot operations; zero values = undirected
	SlotKeys  [][]int
	Asc, Desc []int
	Pairs     [][2]int
}

func (g *StoreGen) module() (name, text, cfg string) {
	var ks []string
	for i, k := range g.Kinds {
		ks = append(ks, fmt.Sprintf("(%d :> NewStore(%q, %d))", i+1, k.Kind, k.N))
	}
	rep := g.Repeats
	if len(rep) == 0 {
		rep = []int{33}
	}
	fac := g.Factors
	if len(fac) == 0 {
		fac = [][2]int{{2, 1}}
	}
	var sk []string
	for i := range g.Kinds {
		keys := g.Keys
		if i < len(g.SlotKeys) {
			keys = g.SlotKeys[i]
		}
		sk = append(sk, fmt.Sprintf("(%d :> %s)", i+1, tlaSet(keys)))
	}
	text = fmt.Sprintf(`---- MODULE RunGenStore ----
EXTENDS Gen_Store
RSlots == 1..%d
RKeys == %s
RWeights == %s
RRepeats == %s
RFactors == %s
ROps == %s
RInit == %s
RSlotKeys == %s
RAsc == %s
RDesc == %s
RPairs == %s
====
`, len(g.Kinds), tlaSet(g.Keys), tlaSet(g.Weights), tlaSet(rep), tlaPairs(fac), tlaStrSet(g.Ops), strings.Join(ks, " @@ "),
		strings.Join(sk, " @@ "), tlaSet(g.Asc), tlaSet(g.Desc), tlaPairs(g.Pairs))
	cfg = fmt.Sprintf(`INIT GenInit
NEXT GenNext
CONSTANTS
  Slots <- RSlots
  Keys <- RKeys
  Q = %d
  Weights <- RWeights
  Repeats <- RRepeats
  Factors <- RFactors
  Ops <- ROps
  InitStores <- RInit
  Depth = %d
  EndMarker = %s
  SlotKeys <- RSlotKeys
  Asc <- RAsc
  Desc <- RDesc
  Pairs <- RPairs
INVARIANT Emit
CHECK_DEADLOCK FALSE
`, g.Q, g.Depth, map[bool]string{true: "TRUE", false: "FALSE"}[g.Simulate])
	return "RunGenStore", text, cfg
}

func (g *StoreGen) describe() string {
	d := fmt.Sprintf("kinds=%v keys=%v Q=%d weights=%v ops=%v depth=%d", g.Kinds, g.Keys, g.Q, g.Weights, g.Ops, g.Depth)
	if len(g.SlotKeys) > 0 || len(g.Asc) > 0 || len(g.Desc) > 0 || len(g.Pairs) > 0 {
		d += fmt.Sprintf(" directed: slotKeys=%v asc=%v desc=%v pairs=%v", g.SlotKeys, g.Asc, g.Desc, g.Pairs)
	}
	return d
}

// embeddings sigma(k)=base+k*stride used for replay. Collapsing slots need stride 1.
type embedding struct{ Base, Stride int }

func storeEmbeddings(hasCollapsing bool, exactKinds []string, thorough bool, maxKey int) []embedding {
	if maxKey < 4 {
		maxKey = 4
	}
	if hasCollapsing {
		es := []embedding{{0, 1}, {-2, 1}, {30, 1}, {-34, 1}, {1000, 1}, {math.MaxInt32 - maxKey, 1}, {math.MinInt32, 1}, {-70000, 1}}
		return es
	}
	dense, paged := false, false
	for _, k := range exactKinds {
		if k == "dense" {
			dense = true
		}
		if k == "paged" {
			paged = true
		}
	}
	es := []embedding{{0, 1}, {-2, 1}, {30, 1}, {-34, 1}, {29, 2}, {0, 31}, {1, 32}, {-33, 33}, {5, 64}, {-300, 127},
		{math.MaxInt32 - maxKey, 1}, {math.MinInt32, 1}, {math.MaxInt32 - maxKey*1000, 1000}, {math.MinInt32 + 7, 999}}
	switch {
	case dense:
		if thorough {
			es = append(es, embedding{-40000, 20011})
		}
	case paged:
		// the paginated store keeps one slice entry per page between its extreme pages: keep spans moderate
		es = append(es, embedding{1000003, 1 << 16}, embedding{-(1 << 30), 1 << 18})
	default:
		es = append(es, embedding{1000003, 1 << 20}, embedding{-(1 << 30), 1 << 28}, embedding{math.MinInt32, 1 << 29})
	}
	return es
}

var exactRealKinds = []string{"dense", "sparse", "paged"}

// storeConfigsFor enumerates replay configurations for a generation config.
func storeConfigsFor(g *StoreGen, thorough bool) []StoreCfg {
	twin := g.Twin
	hasColl := false
	nExact := 0
	for _, k := range g.Kinds {
		if k.Kind != "exact" {
			hasColl = true
		} else {
			nExact++
		}
	}
	// assignments of real kinds to exact slots
	var assigns [][]string
	var rec func(i int, cur []string)
	rec = func(i int, cur []string) {
		if i == len(g.Kinds) {
			assigns = append(assigns, append([]string{}, cur...))
			return
		}
		if g.Kinds[i].Kind != "exact" {
			rec(i+1, append(cur, "-"))
			return
		}
		for _, k := range exactRealKinds {
			rec(i+1, append(cur, k))
		}
	}
	rec(0, nil)
	var out []StoreCfg
	for _, a := range assigns {
		for _, e := range storeEmbeddings(hasColl, a, thorough, maxOf(g.Keys)) {
			for _, mode := range []string{"every", "final"} {
				for pv := 0; pv < 2; pv++ {
					if twin != "" && mode == "final" {
						continue
					}
					out = append(out, StoreCfg{Init: g.Kinds, Exact: a, Base: e.Base, Stride: e.Stride, Q: g.Q, Mode: mode, Proto: pv, Twin: twin})
				}
			}
		}
	}
	sort.SliceStable(out, func(i, j int) bool { return false })
	return out
}

func maxOf(xs []int) int {
	m := 0
	for _, x := range xs {
		if x > m {
			m = x
		}
	}
	return m
}
