package main

func init() {
	checks["C06"] = checkC06
	checks["C09"] = checkC09
}

// C06 - binary encoding round-trips and composes with merging
func checkC06(c *Ctx) {
	c.Ev.Coverage.Rule = "TLC checks on Sketch.tla that decoding an encoding is absorbing the encoded content (K_Content/K_Merge with EncDec, DecodeNew and Concat actions; W_ConcatIsMerge and W_FoldedTargets on Wire.tla) and emits histories in which sketches built by arbitrary adds/merges are encoded (mapping embedded or omitted, after a non-empty caller buffer) and decoded into fresh sketches of any store kind, into non-empty sketches, and as concatenations of two encodings. On real sketches: the target must hold exactly the per-index sums of its previous content and the sources' contents (bit for bit; a fresh target then answers every query like the source, exact statistics included), bounded targets must hold the fold Sketch.tla predicts, the mapping must be equal and of the same kind, the caller's buffer prefix must be intact and the encoding sketch's snapshot unchanged."
	c.Ev.Coverage.CheckerCmd = "./check C06 " + c.Tier
	c.Ev.Assumptions = []string{"weights are dyadic (integers below 2^53 or multiples of 1/4), the class for which the documented +1/-1 transform is exact; other floats are C18's matter"}
	g := &SketchGen{Init: plainExact(2, "plain"), Tokens: []int{10, -11, 0}, Weights: []int{2, 4}, Ops: []string{"AddW", "EncDec", "DecodeNew", "Clear"}, Q: 4, QDen: 8}
	c.runSketchMC(g, c.pick(8, 12), "TypeOK K_Content K_Merge", "K_OnlyReceiverChanges", "2 sketches with encode/decode")
	c.runWireMC("AlphaSmall", c.pick(3, 4), "concatenation = merge on the block format")
	asp := map[string]bool{"decode": true}
	mx := &SketchMatrix{Mappings: mappingMatrix(c.alphas(), nil), Reals: exactRealKinds, Modes: []string{"every"}, Aspects: asp}
	tree := &SketchGen{Init: plainExact(2, "plain"), Tokens: []int{10, 15, -11, 0}, Weights: []int{2, 6, 132}, Ops: []string{"Add", "AddW", "EncDec", "DecodeNew", "Concat"}, Q: 4, QDen: 8, Depth: 3}
	c.runSketchGen(tree, mx, c.pick(6, 12), "exhaustive tree with encode/decode")
	inits := [][]SketchInit{
		sketches("plain", ex0, ex0, ex0, ex0, ex0, ex0),
		sketches("exact", ex0, ex0, ex0, ex0, ex0, ex0),
		{{"exact", 1, ex0, ex0}, {"plain", 1, ex0, ex0}, {"plain", 1, mk("low", 2), mk("high", 3)}},
		sketches("plain", mk("low", 2), mk("low", 3), ex0, ex0, mk("high", 2), mk("high", 1)),
	}
	for _, init := range inits {
		sim := &SketchGen{Init: init, Tokens: append(append([]int{}, tokBins3...), 0, -1, 2, -3, 16, -17), Weights: []int{1, 2, 4, 6, 8, 132, 280, 4096},
			Factors: [][2]int{{1, 2}, {2, 1}}, Ops: []string{"Add", "AddW", "AddN", "Merge", "Clear", "Reweight", "EncDec", "DecodeNew", "Concat"},
			Q: 4, QDen: 8, Depth: c.pick(12, 24), Simulate: true, Num: c.pick(600, 8000)}
		c.runSketchGen(sim, mx, c.pick(8, 16), "simulated histories with encode/decode/concatenation")
	}
	// store level, production-size: long recorded histories in which stores with large unit-entry buffers,
	// pages and collapsed windows are encoded and decoded into non-empty stores; TLC validates decode = merge
	c.runStoreTraces(c.pick(40, 150), traceGenOpts{Events: c.pick(500, 2000), Kinds: []string{"paged", "paged", "dense", "sparse", "low", "high"}, Limits: []int{2, 8, 128},
		Ops: []string{"Add", "Add", "Add", "Add", "Add", "AddWithCount", "AddRepeat", "EncDec", "EncDec", "EncDec", "Merge", "Clear", "CopyTo"}}, "decode into non-empty stores")
}

// C09 - protobuf forms round-trip and the streaming writer equals the message
func checkC09(c *Ctx) {
	c.Ev.Coverage.Rule = "TLC emits Sketch.tla histories with Proto actions (ToProto -> Marshal -> Unmarshal -> FromProtoWithStoreProvider, or the bytes of the streaming EncodeProto writer unmarshalled) between sketches of every store kind; on real sketches the rebuilt sketch must hold bit for bit the source's bins and zero weight (fold for bounded targets), an equal mapping of the same kind, and after every step the message unmarshalled from EncodeProto's bytes must equal ToProto() field by field (bitwise weights). Proto.tla: TLC enumerates hand-built store messages mixing binCounts and contiguousBinCounts (overlapping, negative offsets, zero entries) and the documented content (both forms add up) is compared with MergeWithProto into every store kind. Arbitrary non-negative float64 weights are covered by single-add round trips with weights {0.1, pi, 1e-300, 1e300, 5e-324}."
	c.Ev.Coverage.CheckerCmd = "./check C09 " + c.Tier
	c.Ev.Assumptions = []string{"google.golang.org/protobuf is trusted"}
	c.Ev.Coverage.TrustedBase = []string{"google.golang.org/protobuf (Marshal/Unmarshal)"}
	g := &SketchGen{Init: plainExact(2, "plain"), Tokens: []int{10, -11, 0}, Weights: []int{2, 4}, Ops: []string{"AddW", "Proto", "Clear"}, Q: 4, QDen: 8}
	c.runSketchMC(g, c.pick(8, 12), "TypeOK K_Content K_Merge", "K_OnlyReceiverChanges", "2 sketches with protobuf round trips")
	asp := map[string]bool{"decode": true, "proto": true}
	// besides the from-accuracy mappings, mappings built WithGamma and an offset that is not the kind's default
	// (each field of the mapping message then differs from every other number the mapping holds)
	maps := append(mappingMatrix(c.alphas(), nil), []MappingSpec{{"linear@log", 0.02}}, []MappingSpec{{"cubic@log", 0.01}}, []MappingSpec{{"log@cubic", 0.05}}, []MappingSpec{{"linear@cubic", 0.1}},
		[]MappingSpec{{"log#-7.5", 0.02}}, []MappingSpec{{"linear#-1338.25", 0.01}}, []MappingSpec{{"cubic#-0.5", 0.05}}, []MappingSpec{{"cubic#12.5", 0.01}})
	mx := &SketchMatrix{Mappings: maps, Reals: exactRealKinds, Modes: []string{"every"}, Aspects: asp}
	tree := &SketchGen{Init: plainExact(2, "plain"), Tokens: []int{10, 15, -11, 0}, Weights: []int{6, 132}, Ops: []string{"Add", "AddW", "Proto", "Clear"}, Q: 4, QDen: 8, Depth: c.pick(3, 4)}
	c.runSketchGen(tree, mx, c.pick(6, 12), "exhaustive tree with protobuf round trips")
	inits := [][]SketchInit{
		sketches("plain", ex0, ex0, ex0, ex0, ex0, ex0),
		{{"exact", 1, ex0, ex0}, {"plain", 1, ex0, ex0}, {"plain", 1, mk("low", 2), mk("high", 3)}},
		sketches("plain", mk("low", 2), mk("low", 3), ex0, ex0, mk("high", 2), mk("high", 1)),
	}
	for _, init := range inits {
		sim := &SketchGen{Init: init, Tokens: append(append([]int{}, tokBins3...), 0, -1, 2, -3, 16, -17), Weights: []int{1, 2, 4, 8, 132, 280, 4096},
			Factors: [][2]int{{1, 2}, {2, 1}}, Ops: []string{"Add", "AddW", "AddN", "Merge", "Clear", "Reweight", "Proto"},
			Q: 4, QDen: 8, Depth: c.pick(12, 24), Simulate: true, Num: c.pick(600, 8000)}
		c.runSketchGen(sim, mx, c.pick(8, 16), "simulated histories with protobuf round trips")
	}
	runProtoMessages(c)
	runProtoArbitraryWeights(c)
}
