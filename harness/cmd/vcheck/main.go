package main

import (
	"fmt"
	"os"
	"runtime/pprof"
	"time"
)

var checks = map[string]func(c *Ctx){}

func main() {
	if len(os.Args) < 2 {
		fmt.Println("usage: vcheck <Cxx> <quick|thorough> | vcheck replay <file>")
		os.Exit(2)
	}
	if os.Args[1] == "replay" {
		if len(os.Args) < 3 {
			infraFail("replay needs a file")
		}
		replayFile(os.Args[2])
		return
	}
	if os.Args[1] == "selftest" {
		selftest()
		return
	}
	prop := os.Args[1]
	tier := "quick"
	if len(os.Args) > 2 {
		tier = os.Args[2]
	}
	if t := os.Getenv("VERIF_TIER"); t != "" && len(os.Args) <= 2 {
		tier = t
	}
	f, ok := checks[prop]
	if !ok {
		infraFail("no check for %s", prop)
	}
	if hp := os.Getenv("VERIF_HEAPPROF"); hp != "" { // diagnostic: heap profile every 30 s
		go func() {
			for {
				time.Sleep(15 * time.Second)
				if f, err := os.Create(hp + ".tmp"); err == nil {
					pprof.WriteHeapProfile(f)
					f.Close()
					os.Rename(hp+".tmp", hp)
				}
			}
		}()
	}
	c := newCtx(prop, tier)
	defer c.cleanup()
	f(c)
	c.finish()
}
