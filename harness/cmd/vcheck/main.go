package main

import (
	"fmt"
	"os"
)

var checks = map[string]func(c *Ctx){}

func main() {
	if len(os.Args) < 2 {
		fmt.Println("usage: vcheck <Cxx> <quick|thorough> | vcheck replay <file>")
		os.Exit(2)
	}
	if os.Args[1] == "replay" {
		if len(os.Args) < 3 {
			infraFail("replay needs a file")
		}
		replayFile(os.Args[2])
		return
	}
	if os.Args[1] == "selftest" {
		selftest()
		return
	}
	prop := os.Args[1]
	tier := "quick"
	if len(os.Args) > 2 {
		tier = os.Args[2]
	}
	if t := os.Getenv("VERIF_TIER"); t != "" && len(os.Args) <= 2 {
		tier = t
	}
	f, ok := checks[prop]
	if !ok {
		infraFail("no check for %s", prop)
	}
	c := newCtx(prop, tier)
	defer c.cleanup()
	f(c)
	c.finish()
}
