package main

// placeholders filled in by later pipelines
func runConstructorTable(c *Ctx) {}
func runStoreClearTwin(c *Ctx)  {}
func runStoreReweight(c *Ctx)   {}

func runProtoMessages(c *Ctx)         {}
func runProtoArbitraryWeights(c *Ctx) {}
