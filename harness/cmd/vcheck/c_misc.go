package main

import "fmt"

// placeholders filled in by later pipelines
func runConstructorTable(c *Ctx) { runConstructorTableImpl(c) }

// store level of C15: real stores reused after Clear vs brand-new stores (all five kinds)
func runStoreClearTwin(c *Ctx) {
	type pair struct{ a, b ModelKind }
	pairs := []pair{{ModelKind{"exact", 0}, ModelKind{"exact", 0}}, {ModelKind{"low", 2}, ModelKind{"low", 4}}, {ModelKind{"high", 3}, ModelKind{"exact", 0}}}
	// directed scenario: a collapsing store collapses (two far-apart adds), is cleared, is then populated by a same-kind
	// merge (which does not go through the add path) and finally receives an add beyond its range: 6 events
	for _, k := range []string{"low", "high"} {
		c.runStoreGen(&StoreGen{Kinds: []ModelKind{{k, 2}, {k, 4}}, Keys: []int{0, 2, 4}, SlotKeys: [][]int{{0, 4}, {2}}, Pairs: [][2]int{{2, 1}}, Q: 4, Weights: []int{6},
			Ops: []string{"Add", "Merge", "Clear"}, Depth: 6, Twin: "clear"}, c.pick(3, 6), fmt.Sprintf("store-level directed tree collapse/clear/merge/add %s2 x %s4", k, k))
	}
	for _, p := range pairs {
		// deep narrow tree: add / merge / clear sequences (memory reuse after Clear)
		c.runStoreGen(&StoreGen{Kinds: []ModelKind{p.a, p.b}, Keys: []int{0, 2, 4}, Q: 4, Weights: []int{6}, Ops: []string{"Add", "Merge", "Clear"},
			Depth: c.pick(5, 6), Twin: "clear"}, c.pick(3, 6), fmt.Sprintf("store-level deep narrow tree add/merge/clear %s%d x %s%d", p.a.Kind, p.a.N, p.b.Kind, p.b.N))
		c.runStoreGen(&StoreGen{Kinds: []ModelKind{p.a, p.b, p.a}, Keys: []int{0, 1, 2, 3, 4}, Q: 4, Weights: []int{0, 1, 2, 4, 8, 12},
			Factors: [][2]int{{1, 2}, {2, 1}}, Repeats: []int{33, 70}, Ops: []string{"Add", "AddWithCount", "AddRepeat", "Merge", "CopyTo", "Clear", "Reweight", "EncDec", "Proto"},
			Depth: c.pick(16, 30), Simulate: true, Num: c.pick(1000, 15000), Twin: "clear"}, c.pick(6, 12), fmt.Sprintf("store-level simulated clear/reuse cycles %s%d x %s%d", p.a.Kind, p.a.N, p.b.Kind, p.b.N))
	}
}

// store level of C16: bins just after Reweight(f) = f x bins just before, for all five store kinds
func runStoreReweight(c *Ctx) {
	type pair struct{ a, b ModelKind }
	pairs := []pair{{ModelKind{"exact", 0}, ModelKind{"exact", 0}}, {ModelKind{"low", 2}, ModelKind{"high", 3}}}
	for _, p := range pairs {
		c.runStoreGen(&StoreGen{Kinds: []ModelKind{p.a, p.b}, Keys: []int{0, 1, 2, 3, 4}, Q: 4, Weights: []int{1, 2, 4, 8, 12},
			Factors: [][2]int{{1, 4}, {1, 2}, {2, 1}, {3, 1}}, Repeats: []int{33, 70}, Ops: []string{"Add", "AddWithCount", "AddRepeat", "Merge", "Clear", "Reweight", "Read"},
			Depth: c.pick(14, 24), Simulate: true, Num: c.pick(1500, 20000), Twin: "reweight"}, c.pick(6, 12), fmt.Sprintf("store-level simulated histories with reweight %s%d x %s%d", p.a.Kind, p.a.N, p.b.Kind, p.b.N))
	}
}

func runProtoMessages(c *Ctx)         { runProtoMessagesImpl(c) }
func runProtoArbitraryWeights(c *Ctx) { runProtoArbitraryWeightsImpl(c) }
