package main

// Real-vs-real differential aspects of the sketch pipeline. The specification
// decides WHAT must be equal (which slot is the receiver of an event, what the
// absorbed multiset of a merged sketch is, that Clear leads to the initial
// state, which factor a Reweight applies); the comparison itself is between
// two executions of the real code, bit for bit, so that a defect owned by
// another property is not attributed to C02/C14/C15/C16.

import (
	"fmt"
	"math"
	"sort"
	"strings"

	"github.com/DataDog/sketches-go/ddsketch"
	"github.com/DataDog/sketches-go/ddsketch/stat"
	"github.com/DataDog/sketches-go/ddsketch/store"
)

type sideSnap struct {
	Bins  map[int]uint64
	Total uint64
	Min   int
	Max   int
	Empty bool
}

type skSnap struct {
	Count, Zero uint64
	Empty       bool
	Pos, Neg    sideSnap
	Min, Max    uint64
	MinErr      bool
	MaxErr      bool
	Qs          []uint64
	Exact       bool
	XCount      uint64
	XSum        uint64
	XMin, XMax  uint64
	XMinErr     bool
	XQs         []uint64
}

func snapSide(st store.Store) sideSnap {
	s := sideSnap{Bins: map[int]uint64{}}
	st.ForEach(func(i int, c float64) bool { s.Bins[i] = math.Float64bits(c); return false })
	s.Total = math.Float64bits(st.TotalCount())
	s.Empty = st.IsEmpty()
	s.Min, _ = st.MinIndex()
	s.Max, _ = st.MaxIndex()
	return s
}

var snapGrid = []float64{0, 0.125, 0.25, 0.375, 0.5, 0.625, 0.75, 0.875, 1}

func snapshot(r *realSketch) *skSnap {
	b := r.base()
	s := &skSnap{Count: math.Float64bits(b.GetCount()), Zero: math.Float64bits(b.GetZeroCount()), Empty: b.IsEmpty()}
	s.Pos = snapSide(b.GetPositiveValueStore())
	s.Neg = snapSide(b.GetNegativeValueStore())
	mn, e1 := b.GetMinValue()
	mx, e2 := b.GetMaxValue()
	s.Min, s.Max, s.MinErr, s.MaxErr = math.Float64bits(mn), math.Float64bits(mx), e1 != nil, e2 != nil
	if e1 != nil {
		s.Min = 0
	}
	if e2 != nil {
		s.Max = 0
	}
	for _, q := range snapGrid {
		y, err := b.GetValueAtQuantile(q)
		if err != nil {
			y = -12345
		}
		s.Qs = append(s.Qs, math.Float64bits(y))
	}
	if r.exact != nil {
		s.Exact = true
		s.XCount = math.Float64bits(r.exact.GetCount())
		s.XSum = math.Float64bits(r.exact.GetSum())
		a, e := r.exact.GetMinValue()
		c, _ := r.exact.GetMaxValue()
		s.XMinErr = e != nil
		if e == nil {
			s.XMin, s.XMax = math.Float64bits(a), math.Float64bits(c)
		}
		for _, q := range snapGrid {
			y, err := r.exact.GetValueAtQuantile(q)
			if err != nil {
				y = -12345
			}
			s.XQs = append(s.XQs, math.Float64bits(y))
		}
	}
	return s
}

func (s *skSnap) String() string {
	var sb strings.Builder
	side := func(n string, x sideSnap) {
		ks := make([]int, 0, len(x.Bins))
		for k := range x.Bins {
			ks = append(ks, k)
		}
		sort.Ints(ks)
		fmt.Fprintf(&sb, "%s{", n)
		for _, k := range ks {
			fmt.Fprintf(&sb, "%d:%v ", k, math.Float64frombits(x.Bins[k]))
		}
		fmt.Fprintf(&sb, "total=%v min=%d max=%d empty=%v} ", math.Float64frombits(x.Total), x.Min, x.Max, x.Empty)
	}
	fmt.Fprintf(&sb, "count=%v zero=%v empty=%v ", math.Float64frombits(s.Count), math.Float64frombits(s.Zero), s.Empty)
	side("pos", s.Pos)
	side("neg", s.Neg)
	fmt.Fprintf(&sb, "min=%v(%v) max=%v(%v) q=[", math.Float64frombits(s.Min), s.MinErr, math.Float64frombits(s.Max), s.MaxErr)
	for _, q := range s.Qs {
		fmt.Fprintf(&sb, "%v ", math.Float64frombits(q))
	}
	sb.WriteString("]")
	if s.Exact {
		fmt.Fprintf(&sb, " exact{count=%v sum=%v min=%v max=%v err=%v q=[", math.Float64frombits(s.XCount), math.Float64frombits(s.XSum),
			math.Float64frombits(s.XMin), math.Float64frombits(s.XMax), s.XMinErr)
		for _, q := range s.XQs {
			fmt.Fprintf(&sb, "%v ", math.Float64frombits(q))
		}
		sb.WriteString("]}")
	}
	return sb.String()
}

func snapEqual(a, b *skSnap) bool { return a.String() == b.String() }

// reducedEqual is the comparison used for slots holding non-dyadic weights (results of a mapping change):
// the same bins, each weight and the zero weight equal up to the rounding of a different summation order
// (a paginated store that compacts during a read adds its unit entries one by one instead of at once; a sparse
// store iterates in map order), and the exact statistics - which are accumulated in call order - bit for bit.
// Totals and rank-based answers are sums over the whole store and are not compared.
func reducedEqual(a, b *skSnap) bool {
	near := func(x, y uint64) bool {
		fx, fy := math.Float64frombits(x), math.Float64frombits(y)
		return fx == fy || math.Abs(fx-fy) <= 1e-12*math.Max(math.Abs(fx), math.Abs(fy))
	}
	side := func(x, y sideSnap) bool {
		if len(x.Bins) != len(y.Bins) || x.Empty != y.Empty {
			return false
		}
		for k, v := range x.Bins {
			w, ok := y.Bins[k]
			if !ok || !near(v, w) {
				return false
			}
		}
		return true
	}
	return side(a.Pos, b.Pos) && side(a.Neg, b.Neg) && near(a.Zero, b.Zero) && a.Empty == b.Empty &&
		a.Exact == b.Exact && a.XCount == b.XCount && a.XSum == b.XSum && a.XMin == b.XMin && a.XMax == b.XMax && a.XMinErr == b.XMinErr
}

func snapEqualMode(a, b *skSnap, reduced bool) bool {
	if reduced {
		return reducedEqual(a, b)
	}
	return snapEqual(a, b)
}

// freshStoreLike builds a new, empty store of the same real type (and bin limit)
func freshStoreLike(s store.Store) store.Store {
	l := store.VerifLayout(s)
	switch l.Kind {
	case "dense":
		return store.NewDenseStore()
	case "sparse":
		return store.NewSparseStore()
	case "paged":
		return store.NewBufferedPaginatedStore()
	case "low":
		return store.NewCollapsingLowestDenseStore(l.MaxNumBins)
	case "high":
		return store.NewCollapsingHighestDenseStore(l.MaxNumBins)
	}
	panic("unknown store type")
}

func (w *sketchWorld) freshLike(r *realSketch) *realSketch {
	b := r.base()
	nb := ddsketch.NewDDSketch(w.cfg.conc(r.m).spec.build(), freshStoreLike(b.GetPositiveValueStore()), freshStoreLike(b.GetNegativeValueStore()))
	if r.exact != nil {
		ex, err := ddsketch.NewDDSketchWithExactSummaryStatisticsFromData(nb, stat.NewSummaryStatistics())
		if err != nil {
			panic(err)
		}
		return &realSketch{exact: ex, m: r.m}
	}
	return &realSketch{plain: nb, m: r.m}
}

// twinFromBag builds a fresh sketch like r and feeds it the absorbed multiset the
// specification attributes to the slot (C02: "a single sketch fed the whole input").
func (w *sketchWorld) twinFromBag(r *realSketch, p *SkObs) (*realSketch, string) {
	t := w.freshLike(r)
	conc := w.cfg.conc(p.M)
	for _, b := range p.Bag {
		x, ok := tokenValue(conc, w.cfg.Keys, b[0])
		if !ok {
			return nil, "INFRA: token cannot be concretised"
		}
		wt := float64(b[1]) / float64(w.cfg.Q)
		var err error
		if t.exact != nil {
			err = t.exact.AddWithCount(x, wt)
		} else {
			err = t.plain.AddWithCount(x, wt)
		}
		if err != nil {
			return nil, "INFRA: twin add refused: " + err.Error()
		}
	}
	return t, ""
}

// snapshot comparison for merges: the exact sum may differ in the last bits (different
// summation order), everything else must be identical
func mergeSnapDiff(a, b *skSnap) string {
	x, y := *a, *b
	x.XSum, y.XSum = 0, 0
	if snapEqual(&x, &y) {
		return ""
	}
	return fmt.Sprintf("merged sketch:          %s\nsingle sketch fed the whole input: %s", x.String(), y.String())
}

// scaledSnapDiff checks C16 between the snapshots before and after Reweight(f)
func scaledSnapDiff(before, after *skSnap, f float64) string {
	sc := func(u uint64) float64 { return math.Float64frombits(u) * f }
	side := func(n string, a, b sideSnap) string {
		if len(a.Bins) != len(b.Bins) {
			return fmt.Sprintf("%s store has %d bins after reweighting, %d before", n, len(b.Bins), len(a.Bins))
		}
		for k, v := range a.Bins {
			if got, ok := b.Bins[k]; !ok || math.Float64frombits(got) != sc(v) {
				return fmt.Sprintf("%s bin %d: weight %v after reweighting by %v, was %v", n, k, math.Float64frombits(got), f, math.Float64frombits(v))
			}
		}
		if math.Float64frombits(b.Total) != sc(a.Total) {
			return fmt.Sprintf("%s store total %v after reweighting by %v, was %v", n, math.Float64frombits(b.Total), f, math.Float64frombits(a.Total))
		}
		return ""
	}
	if d := side("positive", before.Pos, after.Pos); d != "" {
		return d
	}
	if d := side("negative", before.Neg, after.Neg); d != "" {
		return d
	}
	if math.Float64frombits(after.Zero) != sc(before.Zero) {
		return fmt.Sprintf("zero weight %v after reweighting by %v, was %v", math.Float64frombits(after.Zero), f, math.Float64frombits(before.Zero))
	}
	if math.Float64frombits(after.Count) != sc(before.Count) {
		return fmt.Sprintf("count %v after reweighting by %v, was %v", math.Float64frombits(after.Count), f, math.Float64frombits(before.Count))
	}
	if before.Exact {
		if math.Float64frombits(after.XCount) != sc(before.XCount) {
			return fmt.Sprintf("exact count %v after reweighting by %v, was %v", math.Float64frombits(after.XCount), f, math.Float64frombits(before.XCount))
		}
		if after.XMin != before.XMin || after.XMax != before.XMax || after.XMinErr != before.XMinErr {
			return "exact minimum/maximum changed by reweighting"
		}
		bs, as := math.Float64frombits(before.XSum), math.Float64frombits(after.XSum)
		if math.Abs(as-bs*f) > 4e-16*math.Abs(bs*f) {
			return fmt.Sprintf("exact sum %v after reweighting by %v, was %v", as, f, bs)
		}
	}
	return ""
}

// decodeIsMerge checks that `after` (the decode target) holds exactly the per-index sums of
// its previous content (nothing if fresh) and the sources' contents.
func decodeIsMerge(tBefore *skSnap, all []*skSnap, srcs []int, after *skSnap, fresh bool, withStats bool) string {
	sum := func(sel func(*skSnap) map[int]uint64) map[int]float64 {
		m := map[int]float64{}
		if !fresh {
			for k, v := range sel(tBefore) {
				m[k] += math.Float64frombits(v)
			}
		}
		for _, si := range srcs {
			for k, v := range sel(all[si-1]) {
				m[k] += math.Float64frombits(v)
			}
		}
		return m
	}
	cmp := func(name string, want map[int]float64, got map[int]uint64) string {
		if len(want) != len(got) {
			return fmt.Sprintf("%s store holds %d bins after decoding, %d expected (target before + encoded content)", name, len(got), len(want))
		}
		for k, v := range want {
			if g, ok := got[k]; !ok || math.Float64frombits(g) != v {
				return fmt.Sprintf("%s bin %d holds %v after decoding, expected %v (target before + encoded content)", name, k, math.Float64frombits(g), v)
			}
		}
		return ""
	}
	if d := cmp("positive", sum(func(s *skSnap) map[int]uint64 { return s.Pos.Bins }), after.Pos.Bins); d != "" {
		return d
	}
	if d := cmp("negative", sum(func(s *skSnap) map[int]uint64 { return s.Neg.Bins }), after.Neg.Bins); d != "" {
		return d
	}
	z := 0.0
	if !fresh {
		z = math.Float64frombits(tBefore.Zero)
	}
	for _, si := range srcs {
		z += math.Float64frombits(all[si-1].Zero)
	}
	if math.Float64frombits(after.Zero) != z {
		return fmt.Sprintf("zero weight %v after decoding, expected %v", math.Float64frombits(after.Zero), z)
	}
	if fresh && len(srcs) == 1 {
		// same content => same answers to every query
		src := all[srcs[0]-1]
		for i := range after.Qs {
			if after.Qs[i] != src.Qs[i] {
				return fmt.Sprintf("quantile %d/8 of the decoded sketch is %v, the source answers %v", i, math.Float64frombits(after.Qs[i]), math.Float64frombits(src.Qs[i]))
			}
		}
		if after.Min != src.Min || after.Max != src.Max || after.Count != src.Count {
			return "count/min/max of the decoded sketch differ from the source's"
		}
		if withStats && after.Exact && src.Exact {
			if after.XCount != src.XCount || after.XMin != src.XMin || after.XMax != src.XMax || after.XSum != src.XSum {
				return fmt.Sprintf("exact statistics of the decoded sketch differ from the source's: %s vs %s", after.String(), src.String())
			}
		}
	}
	return ""
}
