package main

// Direction B for stores: random histories on real stores with production-size
// parameters, recorded as NDJSON and validated by TLC against Trace_Store.tla.

import (
	"bufio"
	"encoding/json"
	"fmt"
	"math"
	"math/rand"
	"os"
	"path/filepath"
	"regexp"
	"sort"
	"time"

	enc "github.com/DataDog/sketches-go/ddsketch/encoding"
	"github.com/DataDog/sketches-go/ddsketch/store"
)

type traceObs struct {
	Empty bool       `json:"empty"`
	Total int64      `json:"total"`
	NBins int        `json:"nbins"`
	Min   int        `json:"min"`
	Max   int        `json:"max"`
	Full  bool       `json:"full"`
	Bins  [][2]int64 `json:"bins"`
	Kar   [][2]int64 `json:"kar"`
}

type traceEvent struct {
	Op     string       `json:"op"`
	S      int          `json:"s"`
	T      int          `json:"t"`
	I      int          `json:"i"`
	W      int64        `json:"w"`
	Num    int          `json:"num"`
	Den    int          `json:"den"`
	Obs    *traceObs    `json:"obs,omitempty"`
	ArgObs *traceObs    `json:"argobs,omitempty"`
	Alloc  int          `json:"alloc"`
	Lay    *traceLayout `json:"lay,omitempty"`
	Kinds  []ModelKind  `json:"kinds,omitempty"`
	Real   []string     `json:"real,omitempty"` // informational: real type per object
}

type traceLayout struct {
	Len  int  `json:"len"`
	Off  int  `json:"off"`
	Mn   int  `json:"mn"`
	Mx   int  `json:"mx"`
	Coll bool `json:"coll"`
	// paginated store
	BLen    int  `json:"blen"`
	BCap    int  `json:"bcap"`
	Trig    int  `json:"trig"`
	PLen    int  `json:"plen"`
	PAlloc  int  `json:"palloc"`
	PMin    int  `json:"pmin"`
	PUnused bool `json:"punused"`
}

const traceQ = 64

const traceDenseCfg = `INIT TraceInit
NEXT TraceNext
CONSTANTS
  Overhead = 64
  FixF3 = TRUE
  Slots <- TSlots
  Keys = {0}
  Weights = {0}
  InitKinds = 0
  MaxTotal = 0
INVARIANTS LayoutMatches
CHECK_DEADLOCK FALSE
`

const tracePagedCfg = `INIT TraceInit
NEXT TraceNext
CONSTANTS
  PageLen = 32
  PageGrow = 8
  Unit = 64
  Slots <- TSlots
  Keys = {0}
  WeightsW = {0}
  MaxTotal = 0
INVARIANTS LayoutMatches
CHECK_DEADLOCK FALSE
` // quanta per unit in recorded traces

// observeForTrace projects a real store; non-dyadic weights are reported as a problem.
func observeForTrace(s store.Store, rng *rand.Rand, forceFull bool) (*traceObs, string) {
	o := &traceObs{Empty: s.IsEmpty()}
	tot := s.TotalCount() * traceQ
	if tot != math.Trunc(tot) {
		return nil, fmt.Sprintf("TotalCount %v is not a multiple of 1/%d although only such weights were added", s.TotalCount(), traceQ)
	}
	o.Total = int64(tot)
	var bins [][2]int64
	problem := ""
	s.ForEach(func(index int, count float64) bool {
		w := count * traceQ
		if w != math.Trunc(w) {
			problem = fmt.Sprintf("bin %d has weight %v, not a multiple of 1/%d", index, count, traceQ)
		}
		bins = append(bins, [2]int64{int64(index), int64(w)})
		return false
	})
	if problem != "" {
		return nil, problem
	}
	sort.Slice(bins, func(i, j int) bool { return bins[i][0] < bins[j][0] })
	o.NBins = len(bins)
	if mi, err := s.MinIndex(); err == nil {
		o.Min = mi
	} else if !o.Empty {
		return nil, "MinIndex failed on a non-empty store"
	}
	if ma, err := s.MaxIndex(); err == nil {
		o.Max = ma
	} else if !o.Empty {
		return nil, "MaxIndex failed on a non-empty store"
	}
	if len(bins) <= 48 || forceFull {
		o.Full = true
		o.Bins = bins
	} else {
		// sample: some present bins, some absent indexes
		for k := 0; k < 12; k++ {
			o.Bins = append(o.Bins, bins[rng.Intn(len(bins))])
		}
		present := map[int64]int64{}
		for _, b := range bins {
			present[b[0]] = b[1]
		}
		for k := 0; k < 6; k++ {
			idx := bins[0][0] - 2 + rng.Int63n(bins[len(bins)-1][0]-bins[0][0]+5)
			o.Bins = append(o.Bins, [2]int64{idx, present[idx]})
		}
	}
	if o.Bins == nil {
		o.Bins = [][2]int64{}
	}
	o.Kar = [][2]int64{}
	if !o.Empty {
		// ranks in half quanta: boundaries of a few bins +-1, random ranks, both ends
		cands := []int64{-2, 0, 1, 2*o.Total - 1, 2 * o.Total, 2*o.Total + 2}
		var cum int64
		pick := map[int]bool{}
		for k := 0; k < 4; k++ {
			pick[rng.Intn(len(bins))] = true
		}
		for i, b := range bins {
			cum += b[1]
			if pick[i] {
				cands = append(cands, 2*cum-1, 2*cum, 2*cum+1)
			}
		}
		for k := 0; k < 3; k++ {
			cands = append(cands, rng.Int63n(2*o.Total+1))
		}
		for _, r2 := range cands {
			o.Kar = append(o.Kar, [2]int64{r2, int64(s.KeyAtRank(float64(r2) / (2 * traceQ)))})
		}
	}
	return o, ""
}

type traceGenOpts struct {
	Layout   bool // also validate the recorded array layout against DenseImpl.tla (Trace_Dense)
	MaxWidth int  // bound on the width of index clusters (array-level validation copies whole arrays per event)
	Events   int
	Limits   []int // bin limits offered to collapsing objects
	Kinds    []string
	Ops      []string
}

// recordStoreTrace runs one random history on real stores and appends its events to w.
// It returns a description of a failure visible without the specification (panic, error return).
func recordStoreTrace(w *bufio.Writer, rng *rand.Rand, o traceGenOpts, counters map[string]int64) (problem string, lastEv *traceEvent) {
	kinds := make([]ModelKind, 4)
	real := make([]string, 4)
	objs := make([]store.Store, 4)
	for i := range objs {
		k := o.Kinds[rng.Intn(len(o.Kinds))]
		mk := ModelKind{"exact", 0}
		ex := k
		if k == "low" || k == "high" {
			mk = ModelKind{k, o.Limits[rng.Intn(len(o.Limits))]}
			ex = "-"
		}
		kinds[i], real[i] = mk, ex
		objs[i] = newRealStore(mk, ex)
	}
	curKind := append([]ModelKind{}, kinds...)
	emit := func(e *traceEvent) {
		b, _ := json.Marshal(e)
		w.Write(b)
		w.WriteByte('\n')
	}
	emit(&traceEvent{Op: "reset", Kinds: kinds, Real: real})
	// index generator: a few clusters so that ranges overlap, plus page/array boundary values
	base := int(rng.Int63n(1<<31)) - 1<<30
	if rng.Intn(3) == 0 {
		base = []int{0, -32, 31, 64, -1000, 1 << 20}[rng.Intn(6)]
	}
	width := []int{3, 10, 40, 200, 3000}[rng.Intn(5)]
	if o.MaxWidth > 0 && width > o.MaxWidth {
		width = o.MaxWidth
	}
	far := rng.Intn(4) == 0 && o.MaxWidth == 0
	genIndex := func(recvKind string) int {
		i := base + rng.Intn(width)
		if far && recvKind != "dense" && recvKind != "low" && recvKind != "high" && recvKind != "paged" && rng.Intn(5) == 0 {
			i += (rng.Intn(7) - 3) * (1 << 24)
		} else if rng.Intn(10) == 0 && o.MaxWidth == 0 {
			i += rng.Intn(20*width) - 10*width
		}
		if i > 1<<30 {
			i = 1 << 30
		}
		if i < -(1 << 30) {
			i = -(1 << 30)
		}
		return i
	}
	var ev *traceEvent
	defer func() {
		if r := recover(); r != nil {
			problem = fmt.Sprintf("panic: %v", r)
			lastEv = ev
		}
	}()
	for n := 0; n < o.Events; n++ {
		op := o.Ops[rng.Intn(len(o.Ops))]
		s := 1 + rng.Intn(4)
		t := 0
		ev = &traceEvent{Op: op, S: s}
		switch op {
		case "Add":
			ev.I = genIndex(realKindName(objs[s-1]))
			ev.W = traceQ
			objs[s-1].Add(ev.I)
		case "AddWithCount", "AddBin":
			ev.I = genIndex(realKindName(objs[s-1]))
			ev.W = []int64{0, 1, traceQ / 2, traceQ, traceQ, 3 * traceQ / 2, 2 * traceQ, 5 * traceQ, 64 * traceQ}[rng.Intn(9)]
			if op == "AddWithCount" {
				objs[s-1].AddWithCount(ev.I, float64(ev.W)/traceQ)
			} else {
				b, err := store.NewBin(ev.I, float64(ev.W)/traceQ)
				if err != nil {
					return "NewBin refused a non-negative weight", ev
				}
				objs[s-1].AddBin(*b)
			}
		case "AddRepeat":
			ev.I = genIndex(realKindName(objs[s-1]))
			ev.Num = 1 + rng.Intn(80)
			ev.W = int64(ev.Num) * traceQ
			for k := 0; k < ev.Num; k++ {
				objs[s-1].Add(ev.I)
			}
		case "Merge", "EncDec", "Proto", "CopyTo":
			t = 1 + rng.Intn(3)
			if t >= s {
				t++
			}
			ev.T = t
			if (realKindName(objs[t-1]) == "dense" || realKindName(objs[t-1]) == "paged") && !objs[s-1].IsEmpty() && op != "CopyTo" {
				// do not make a dense/paged receiver span a huge range
				mi, _ := objs[s-1].MinIndex()
				ma, _ := objs[s-1].MaxIndex()
				lo, hi := mi, ma
				if !objs[t-1].IsEmpty() {
					a, _ := objs[t-1].MinIndex()
					b, _ := objs[t-1].MaxIndex()
					if a < lo {
						lo = a
					}
					if b > hi {
						hi = b
					}
				}
				if hi-lo > 1<<22 {
					n--
					continue
				}
			}
			if op != "CopyTo" && objs[s-1].TotalCount()+objs[t-1].TotalCount() > 1<<17 {
				// keep totals far below TLC's 32-bit integers (2^17 units = 2^23 quanta)
				objs[t-1].Clear()
				ev = &traceEvent{Op: "Clear", S: t}
				op, s, t = "Clear", t, 0
				break
			}
			switch op {
			case "Merge":
				objs[t-1].MergeWith(objs[s-1])
			case "CopyTo":
				objs[t-1] = objs[s-1].Copy()
				curKind[t-1] = curKind[s-1]
			case "EncDec":
				var b []byte
				objs[s-1].Encode(&b, enc.FlagTypeNegativeStore)
				for len(b) > 0 {
					fl, err := enc.DecodeFlag(&b)
					if err != nil {
						return "DecodeFlag: " + err.Error(), ev
					}
					if err := objs[t-1].DecodeAndMergeWith(&b, fl.SubFlag()); err != nil {
						return "DecodeAndMergeWith of a complete encoding: " + err.Error(), ev
					}
				}
			case "Proto":
				if rng.Intn(2) == 0 {
					store.MergeWithProto(objs[t-1], objs[s-1].ToProto())
				} else {
					m, p := storeProtoViaBuilder(objs[s-1])
					if p != "" {
						return p, ev
					}
					store.MergeWithProto(objs[t-1], m)
				}
			}
		case "Clear":
			objs[s-1].Clear()
		case "Reweight":
			f := [][2]int{{2, 1}, {3, 1}, {1, 2}, {1, 4}, {3, 2}}[rng.Intn(5)]
			ok := !objs[s-1].IsEmpty() && objs[s-1].TotalCount()*float64(f[0])/float64(f[1]) < 1<<17
			objs[s-1].ForEach(func(_ int, c float64) bool {
				q := c * traceQ * float64(f[0]) / float64(f[1])
				if q != math.Trunc(q) {
					ok = false
				}
				return false
			})
			if !ok {
				n--
				continue
			}
			ev.Num, ev.Den = f[0], f[1]
			if err := objs[s-1].Reweight(float64(f[0]) / float64(f[1])); err != nil {
				return "Reweight by a positive factor returned an error", ev
			}
		case "Read":
			k := 0
			objs[s-1].ForEach(func(int, float64) bool { k++; return k > 3 })
			for range objs[s-1].Bins() {
			}
			_ = objs[s-1].ToProto()
			var b []byte
			objs[s-1].Encode(&b, enc.FlagTypePositiveStore)
		}
		counters["op:"+op]++
		recv := s
		if t != 0 {
			recv = t
		}
		full := n == o.Events-1
		obs, p := observeForTrace(objs[recv-1], rng, full)
		if p != "" {
			return p, ev
		}
		ev.Obs = obs
		if t != 0 {
			ao, p := observeForTrace(objs[s-1], rng, false)
			if p != "" {
				return p, ev
			}
			ev.ArgObs = ao
		}
		lay := store.VerifLayout(objs[recv-1])
		ev.Alloc = lay.ArrayLen
		ev.Lay = &traceLayout{Len: lay.ArrayLen, Off: lay.Offset, Mn: lay.MinIndex, Mx: lay.MaxIndex, Coll: lay.Collapsed,
			BLen: lay.BufferLen, BCap: lay.BufferCap, Trig: lay.CompactionTrigger, PLen: lay.PagesLen, PAlloc: lay.AllocatedPages, PUnused: lay.PagesUnused}
		if !lay.PagesUnused {
			ev.Lay.PMin = lay.MinPageIndex
		}
		if lay.Collapsed {
			counters["layout:collapsed"]++
		}
		if lay.AllocatedPages > 0 {
			counters["layout:paged-with-pages"]++
			if lay.BufferLen > 0 {
				counters["layout:paged-with-pages-and-buffer"]++
			}
		}
		if curKind[recv-1].Kind != "exact" && lay.ArrayLen > curKind[recv-1].N {
			return fmt.Sprintf("collapsing store allocated %d bins, limit %d", lay.ArrayLen, curKind[recv-1].N), ev
		}
		emit(ev)
	}
	return "", nil
}

var reTraceL = regexp.MustCompile(`(?m)^/\\ l = (\d+)`)

// runStoreTraces records nTraces traces and validates them with TLC.
// maxTraceLines bounds the length of one trace file: TLC cannot reconstruct a counterexample of 65536 or more states
// (it fails with an internal error instead of reporting the violated invariant), so long runs are validated in chunks.
const maxTraceLines = 40000

func (c *Ctx) runStoreTraces(nTraces int, o traceGenOpts, purpose string) {
	if !c.phase("traces " + purpose) {
		return
	}
	rng := rand.New(rand.NewSource(c.Seed*7919 + int64(len(purpose))))
	counters := map[string]int64{}
	per := maxTraceLines / (o.Events + 1)
	if per < 1 {
		per = 1
	}
	totalEvents := 0
	for done := 0; done < nTraces; done += per {
		n := per
		if nTraces-done < n {
			n = nTraces - done
		}
		lines, ok := c.runStoreTraceChunk(n, o, purpose, rng, counters)
		totalEvents += lines - n
		if !ok {
			break
		}
	}
	for k, v := range counters {
		c.addExtraCount("recorded "+k, v)
	}
	fmt.Printf("  [traces %s] %d traces, %d recorded events validated by TLC %.0fs\n", purpose, nTraces, totalEvents, time.Since(c.phaseStart).Seconds())
}

// runStoreTraceChunk records nTraces executions into one file and validates it; false = a violation was reported
func (c *Ctx) runStoreTraceChunk(nTraces int, o traceGenOpts, purpose string, rng *rand.Rand, counters map[string]int64) (int, bool) {
	path := filepath.Join(c.Scratch, fmt.Sprintf("store-trace-%d.ndjson", time.Now().UnixNano()))
	f, err := os.Create(path)
	if err != nil {
		infraFail("%v", err)
	}
	defer os.Remove(path)
	w := bufio.NewWriterSize(f, 1<<20)
	for i := 0; i < nTraces; i++ {
		if p, ev := recordStoreTrace(w, rng, o, counters); p != "" {
			w.Flush()
			f.Close()
			keep := filepath.Join(verifRoot, "replays", fmt.Sprintf("%s-trace-%d.ndjson", c.Prop, c.Seed))
			os.MkdirAll(filepath.Dir(keep), 0o755)
			copyFile(path, keep)
			tags := map[string]string{"outcome": "driver", "what": p}
			if ev != nil {
				tags["op"] = ev.Op
			}
			c.report(&Violation{Pipeline: "storetrace", Config: o, Case: map[string]interface{}{"trace_file": keep, "seed": c.Seed},
				What: "while recording a trace on the real stores: " + p, Actual: ev, Tags: tags})
			return 0, false
		}
	}
	w.Flush()
	f.Close()
	lines := countLines(path)
	cfg := traceStoreCfg
	res := c.runTLC(TLCOpts{Module: "Trace_Store", Cfg: cfg, Purpose: "trace validation " + purpose, Workers: 1,
		Env: []string{"VERIF_TRACE=" + path}, Timeout: 60 * time.Minute,
		Constants: fmt.Sprintf("%d traces x %d events, kinds=%v limits=%v ops=%v Q=%d", nTraces, o.Events, o.Kinds, o.Limits, o.Ops, traceQ)})
	if res.Violated != "" {
		// the last state of TLC's counterexample holds l = index of the next line; the offending event is line l-1
		lineNo := res.LastL - 1
		keep := filepath.Join(verifRoot, "replays", fmt.Sprintf("%s-trace-%d.ndjson", c.Prop, c.Seed))
		os.MkdirAll(filepath.Dir(keep), 0o755)
		copyFile(path, keep)
		evLine := nthLine(path, lineNo)
		c.report(&Violation{Pipeline: "storetrace", Config: o, Case: map[string]interface{}{"trace_file": keep, "line": lineNo, "seed": c.Seed},
			Step: lineNo, What: fmt.Sprintf("recorded execution of the real stores is not a behaviour of Store.tla: %s fails at trace line %d", res.Violated, lineNo),
			Actual: json.RawMessage(evLine), Tags: map[string]string{"outcome": "trace-rejected", "invariant": res.Violated}})
	} else if res.Distinct != int64(lines)+1 {
		infraFail("trace validation consumed %d of %d lines without reporting a violation:\n%s", res.Distinct-1, lines, res.Output)
	}
	if res.Violated == "" && o.Layout {
		cfgD := traceDenseCfg
		resD := c.runTLC(TLCOpts{Module: "Trace_Dense", Cfg: cfgD, Purpose: "array-layout trace validation " + purpose, Workers: 1,
			Env: []string{"VERIF_TRACE=" + path}, Timeout: 60 * time.Minute, Constants: "overhead=64 (real constant)"})
		if resD.Violated != "" {
			lineNo := resD.LastL - 1
			keep := filepath.Join(verifRoot, "replays", fmt.Sprintf("%s-trace-%d.ndjson", c.Prop, c.Seed))
			os.MkdirAll(filepath.Dir(keep), 0o755)
			copyFile(path, keep)
			// the array layout is implementation detail: a disagreement is conformance drift of DenseImpl.tla, not a violation of the property
			c.driftNote("recorded array layout of a dense store differs from DenseImpl.tla at trace line %d (%s): %.300s", lineNo, keep, nthLine(path, lineNo))
		} else if resD.Distinct != int64(lines)+1 {
			infraFail("Trace_Dense consumed %d of %d lines\n%s", resD.Distinct-1, lines, resD.Output)
		}
	}
	if res.Violated == "" && o.Layout {
		cfgP := tracePagedCfg
		resP := c.runTLC(TLCOpts{Module: "Trace_Paged", Cfg: cfgP, Purpose: "paginated-layout trace validation " + purpose, Workers: 1,
			Env: []string{"VERIF_TRACE=" + path}, Timeout: 60 * time.Minute, Constants: "pageLen=32 pageGrow=8 (real constants)"})
		if resP.Violated != "" {
			lineNo := resP.LastL - 1
			keep := filepath.Join(verifRoot, "replays", fmt.Sprintf("%s-trace-%d.ndjson", c.Prop, c.Seed))
			os.MkdirAll(filepath.Dir(keep), 0o755)
			copyFile(path, keep)
			c.driftNote("recorded layout of a paginated store differs from PagedImpl.tla at trace line %d (%s): %.400s", lineNo, keep, nthLine(path, lineNo))
		} else if resP.Distinct != int64(lines)+1 {
			infraFail("Trace_Paged consumed %d of %d lines\n%s", resP.Distinct-1, lines, resP.Output)
		}
	}
	c.mu.Lock()
	c.Ev.Coverage.Traces += int64(nTraces)
	c.Ev.Coverage.TraceEvents += int64(lines - nTraces)
	c.Ev.Coverage.Evaluations += int64(lines - nTraces)
	c.mu.Unlock()
	return lines, res.Violated == ""
}

func copyFile(src, dst string) {
	b, err := os.ReadFile(src)
	if err == nil {
		os.WriteFile(dst, b, 0o644)
	}
}

func countLines(path string) int {
	f, err := os.Open(path)
	if err != nil {
		return 0
	}
	defer f.Close()
	sc := bufio.NewScanner(f)
	sc.Buffer(make([]byte, 1<<20), 1<<26)
	n := 0
	for sc.Scan() {
		n++
	}
	return n
}

func nthLine(path string, n int) []byte {
	f, err := os.Open(path)
	if err != nil {
		return []byte("null")
	}
	defer f.Close()
	sc := bufio.NewScanner(f)
	sc.Buffer(make([]byte, 1<<20), 1<<26)
	i := 0
	for sc.Scan() {
		i++
		if i == n {
			return append([]byte{}, sc.Bytes()...)
		}
	}
	return []byte("null")
}
