package main

func init() {
	checks["C04"] = checkC04
}

var opsC04 = []string{"Add", "AddWithCount", "AddBin", "AddRepeat", "Merge", "CopyTo", "Clear", "Reweight", "EncDec", "Proto", "Read"}

// C04 - non-collapsing stores behave as exact index->count maps
func checkC04(c *Ctx) {
	exact2 := []ModelKind{{"exact", 0}, {"exact", 0}}
	c.Ev.Coverage.Rule = "TLC enumerates every history of Store.tla events over 2 exact slots (exhaustive tree to the given depth) and random long histories (-simulate); each is replayed on real dense/sparse/paginated stores under rotating index embeddings, comparing TotalCount, IsEmpty, Min/MaxIndex, ForEach, Bins and KeyAtRank at all probe ranks of every slot after every step with ==. distinct_nontrivial counts distinct (abstract state, event) pairs exercised on the implementation."
	c.Ev.Coverage.CheckerCmd = "./check C04 " + c.Tier
	c.Ev.Assumptions = []string{"weights are dyadic (multiples of 1/4) so float64 sums are exact", "model indexes 0..4 embedded order-preservingly into the int32 range"}
	if c.quick() {
		c.runStoreMC(exact2, "OpsAll", "MCKeysQuick", 4, "exact x exact")
	} else {
		c.runStoreMC(exact2, "OpsAll", "MCKeys", 5, "exact x exact")
	}
	c.runDenseImplMC("IK_ExactExact", 2, "dense x dense (array level)")
	c.runPagedImplMC()
	// exhaustive tree, small alphabet
	c.runStoreGen(&StoreGen{Kinds: exact2, Keys: []int{0, 2, 4}, Q: 4, Weights: []int{0, 6}, Factors: [][2]int{{3, 2}, {1, 2}},
		Repeats: []int{33}, Ops: opsC04, Depth: 3}, c.pick(6, 16), "exhaustive tree")
	// deep narrow trees: every sequence of 5 (thorough: 6) events over focused alphabets - multi-step memory-reuse paths
	c.runStoreGen(&StoreGen{Kinds: exact2, Keys: []int{0, 3}, Q: 4, Weights: []int{6}, Ops: []string{"Add", "AddWithCount", "Merge", "Clear"},
		Depth: c.pick(4, 5)}, c.pick(3, 4), "deep narrow tree add/addWithCount/merge/clear")
	c.runStoreGen(&StoreGen{Kinds: exact2, Keys: []int{0, 3}, Q: 4, Weights: []int{6}, Ops: []string{"Add", "Merge", "Clear"},
		Depth: c.pick(5, 6)}, c.pick(3, 4), "deep narrow tree add/merge/clear")
	c.runStoreGen(&StoreGen{Kinds: exact2, Keys: []int{1, 2}, Q: 4, Weights: []int{6}, Repeats: []int{33}, Factors: [][2]int{{1, 2}},
		Ops: []string{"Add", "AddRepeat", "EncDec", "Reweight", "CopyTo"}, Depth: c.pick(4, 5)}, c.pick(3, 3), "deep narrow tree add/addRepeat/encDec/reweight/copy")
	// single store, reads as explicit events: stale caches of internal state (sortedness, compaction) across Clear/Reweight
	// only show when NO other read happens in between - the "final" replay mode projects the store only at the end
	c.runStoreGen(&StoreGen{Kinds: exact2[:1], Keys: []int{1, 3}, Q: 4, Weights: []int{6}, Factors: [][2]int{{1, 2}},
		Ops: []string{"Add", "Read", "Clear", "Reweight"}, Depth: c.pick(7, 8)}, c.pick(4, 6), "deep narrow tree, one store: add/read/clear/reweight")
	// long random histories, full alphabet
	c.runStoreGen(&StoreGen{Kinds: exact2, Keys: []int{0, 1, 2, 3, 4}, Q: 4, Weights: []int{0, 1, 2, 4, 8, 12},
		Factors: [][2]int{{1, 4}, {1, 2}, {2, 1}, {3, 1}}, Repeats: []int{33, 70}, Ops: opsC04, Depth: c.pick(16, 24),
		Simulate: true, Num: c.pick(3000, 40000)}, c.pick(8, 16), "simulated long histories")
	// direction B: recorded executions of the real stores validated by TLC
	c.runStoreTraces(c.pick(24, 100), traceGenOpts{Events: c.pick(400, 2000), Kinds: []string{"dense", "sparse", "paged"},
		Ops: []string{"Add", "Add", "AddWithCount", "AddWithCount", "AddBin", "AddRepeat", "Merge", "CopyTo", "Clear", "Reweight", "EncDec", "Proto", "Read"}}, "non-collapsing stores")
	// the same kind of recording, narrower index clusters, additionally validated at array level (DenseImpl.tla, real overhead 64)
	c.runStoreTraces(c.pick(12, 50), traceGenOpts{Layout: true, MaxWidth: 60, Events: c.pick(300, 1500), Kinds: []string{"dense", "dense", "sparse", "paged"},
		Ops: []string{"Add", "AddWithCount", "AddBin", "AddRepeat", "Merge", "CopyTo", "Clear", "Reweight", "EncDec", "Proto", "Read"}}, "dense stores, array layout")
	// paginated stores only: the whole history stays tracked by PagedImpl.tla (buffer, capacity, compaction trigger, page
	// slice, allocated pages, minPageIndex) with the real constants, through bulk adds, same-kind merges and decodes of a
	// paginated store's own encoding too (Go's append policy is modelled as PagedImpl!GoCap and checked against every
	// logged capacity)
	c.runStoreTraces(c.pick(8, 30), traceGenOpts{Layout: true, MaxWidth: 60, Events: c.pick(700, 3000), Kinds: []string{"paged"},
		Ops: []string{"Add", "Add", "Add", "Add", "Add", "Add", "Add", "Add", "AddWithCount", "AddBin", "AddRepeat", "AddRepeat", "Merge", "EncDec", "CopyTo", "Clear", "Reweight", "Read"}}, "paginated stores, page layout")
}
