package main

func init() {
	checks["C07"] = checkC07
	checks["C08"] = checkC08
}

// C07 - wire format matches its documentation; decoder accepts every valid stream
func checkC07(c *Ctx) {
	c.Ev.Coverage.Rule = "Consumer side: TLC enumerates every stream of up to 3 (quick) / 4 (thorough, reduced alphabet) blocks from the documented grammar (zero-count, mapping, statistics blocks; bins blocks in the three layouts with N=0, negative/zero/large strides, repeated indexes, zero counts; both sides; blocks in any order, repeated) and checks W_OrderIrrelevant, W_StatsIgnoredByPlain, W_ConcatIsMerge, W_FoldedTargets; each stream is serialised by the harness's independent writer and decoded by the real DecodeDDSketch (no mapping / supplied mapping / into a receiver / collapsing stores) and DecodeDDSketchWithExactSummaryStatistics into dense, sparse and paginated stores: at every block boundary the decoded content must equal the content Wire.tla assigns to the complete blocks. Producer side: random real sketches (all store kinds, both variants, all mappings) are encoded by the real encoder, tokenised by the independent tokenizer and TLC checks that the documented meaning of the blocks is the source content."
	c.Ev.Coverage.CheckerCmd = "./check C07 " + c.Tier
	c.Ev.Assumptions = []string{"weights are multiples of 1/4 (consumer) or 1/64 (producer)", "the independent writer/tokenizer (wirefmt.go) is validated against Varint.tla's vectors in C18"}
	c.Ev.Coverage.TrustedBase = []string{"wirefmt.go (independent writer/tokenizer written from flag.go's documentation)"}
	c.runWireMC("AlphaFull", c.pick(3, 3), "all streams over the full block alphabet")
	asp := map[string]bool{"valid": true}
	c.runWireGen("AlphaFull", c.pick(3, 3), asp, c.pick(3, 12), "streams over the full alphabet")
	c.runWireGen("AlphaSmall", c.pick(4, 5), asp, c.pick(4, 6), "longer streams over the reduced alphabet")
	c.runWireProducer(c.pick(1500, 20000), "real encodings")
	c.runExactEncodingsIntoPlain(c.pick(4000, 100000))
}

// C08 - malformed or truncated encodings are reported, never absorbed or fatal
func checkC08(c *Ctx) {
	c.Ev.Coverage.Rule = "TLC enumerates the same streams as C07 (incl. undefined flag bytes, mapping blocks that differ from the receiver's or from each other, streams without mapping) with the error class Wire.tla assigns to every prefix of complete blocks (W_Errors); the harness serialises each stream and feeds EVERY byte prefix to every real decoder (plain with/without supplied mapping, into a receiver, collapsing stores, exact-statistics): a cut strictly inside a block must return an error, a cut at a block boundary must behave like the shorter stream (error class or not), and no decoder may panic. Real encodings: every byte prefix of encodings produced by the real encoder is classified with the independent tokenizer (complete blocks or not) and decoded."
	c.Ev.Coverage.CheckerCmd = "./check C08 " + c.Tier
	c.Ev.Assumptions = []string{"which error is returned is not part of the contract: only error vs success (and success content) is compared"}
	c.Ev.Coverage.TrustedBase = []string{"wirefmt.go (independent writer/tokenizer written from flag.go's documentation)"}
	c.runWireMC("AlphaFull", c.pick(3, 3), "all streams over the full block alphabet")
	asp := map[string]bool{"trunc": true, "unknown": true, "mismatch": true, "missing-mapping": true, "missing-statistics": true}
	c.runWireGen("AlphaFull", c.pick(3, 3), asp, c.pick(3, 12), "every byte cut of streams over the full alphabet")
	c.runWireGen("AlphaSmall", c.pick(4, 5), asp, c.pick(4, 6), "every byte cut of longer streams")
	c.runRealTruncations(c.pick(300, 5000))
}
