package main

// MappingId pipeline (MappingId.tla): C19 and the constructor clause of C13.

import (
	"encoding/json"
	"fmt"
	"math"
	"math/rand"
	"time"

	"github.com/DataDog/sketches-go/ddsketch"
	enc "github.com/DataDog/sketches-go/ddsketch/encoding"
	"github.com/DataDog/sketches-go/ddsketch/mapping"
	"github.com/DataDog/sketches-go/ddsketch/pb/sketchpb"
	"google.golang.org/protobuf/proto"
)

type mapTok struct {
	Kind string `json:"kind"`
	G    int    `json:"g"`
	O    int    `json:"o"`
}

var gammaAlphas = []float64{1e-6, 1e-3, 0.01, 0.0101, 0.5, 0.99}
var offsetVals = []float64{0, math.NaN() /* default of the kind */, 1.5, -1234, 1e6}

// gamma tokens stand for the SAME base for every kind (so that mappings of different kinds with identical
// parameters are compared too): the base the logarithmic mapping derives from the token's accuracy
func gammaFor(kind string, alpha float64) float64 {
	return MappingSpec{"log", alpha}.build().ToProto().Gamma
}

func defaultOffsetFor(kind string, alpha float64) float64 {
	return MappingSpec{kind, alpha}.build().ToProto().IndexOffset
}

func buildTok(t mapTok, extraA []float64, extraO []float64) (mapping.IndexMapping, error) {
	alphas := append(append([]float64{}, gammaAlphas...), extraA...)
	offs := append(append([]float64{}, offsetVals...), extraO...)
	alpha := alphas[t.G-1]
	g := gammaFor(t.Kind, alpha)
	o := offs[t.O-1]
	if math.IsNaN(o) {
		o = 7.25 // (token 2: a non-zero offset shared by all kinds)
	}
	switch t.Kind {
	case "log":
		return mapping.NewLogarithmicMappingWithGamma(g, o)
	case "linear":
		return mapping.NewLinearlyInterpolatedMappingWithGamma(g, o)
	default:
		return mapping.NewCubicallyInterpolatedMappingWithGamma(g, o)
	}
}

// fromAccuracyConsistency: a mapping built from an accuracy equals (and behaves like) the one built from
// the corresponding base and offset, for every kind
func fromAccuracyConsistency(c *Ctx, rng *rand.Rand) {
	for _, kind := range allMappingKinds {
		for _, a := range append(append([]float64{}, gammaAlphas...), 0.05, 0.2, 0.9) {
			m1 := MappingSpec{kind, a}.build()
			p := m1.ToProto()
			var m2 mapping.IndexMapping
			var err error
			switch kind {
			case "log":
				m2, err = mapping.NewLogarithmicMappingWithGamma(p.Gamma, p.IndexOffset)
			case "linear":
				m2, err = mapping.NewLinearlyInterpolatedMappingWithGamma(p.Gamma, p.IndexOffset)
			default:
				m2, err = mapping.NewCubicallyInterpolatedMappingWithGamma(p.Gamma, p.IndexOffset)
			}
			what := ""
			if err != nil {
				what = "constructor from base and offset failed: " + err.Error()
			} else if !m1.Equals(m2) || !m2.Equals(m1) {
				what = "not equal"
			} else {
				what = sameBehaviour(m1, m2, rng)
			}
			if what != "" {
				c.report(&Violation{Pipeline: "mappingid", Case: map[string]interface{}{"kind": kind, "accuracy": a}, What: fmt.Sprintf("%s mapping built from accuracy %v vs from the corresponding base and offset: %s", kind, a, what), Tags: map[string]string{"outcome": "form"}})
			}
			if math.Abs(m1.RelativeAccuracy()-a) > 1e-9*a+1e-12 {
				c.report(&Violation{Pipeline: "mappingid", Case: map[string]interface{}{"kind": kind, "accuracy": a}, What: fmt.Sprintf("%s mapping built with accuracy %v reports %v", kind, a, m1.RelativeAccuracy()), Tags: map[string]string{"outcome": "form"}})
			}
		}
	}
}

func sameBehaviour(a, b mapping.IndexMapping, rng *rand.Rand) string {
	lo, hi := a.MinIndexableValue(), a.MaxIndexableValue()
	if b.MinIndexableValue() != lo || b.MaxIndexableValue() != hi || a.RelativeAccuracy() != b.RelativeAccuracy() {
		return "indexable range or relative accuracy differ"
	}
	for i := 0; i < 200; i++ {
		var v float64
		switch i % 4 {
		case 0:
			v = math.Exp(math.Log(lo*2) + rng.Float64()*(math.Log(hi/2)-math.Log(lo*2)))
		case 1:
			v = 1 + rng.Float64()*100
		case 2:
			v = lo * (1 + rng.Float64())
		default:
			v = hi / (1 + rng.Float64())
		}
		if v <= lo || v >= hi {
			continue
		}
		ia, ib := a.Index(v), b.Index(v)
		if ia != ib {
			return fmt.Sprintf("Index(%v) = %d vs %d", v, ia, ib)
		}
		if math.Float64bits(a.Value(ia)) != math.Float64bits(b.Value(ia)) || math.Float64bits(a.LowerBound(ia)) != math.Float64bits(b.LowerBound(ia)) {
			return fmt.Sprintf("Value/LowerBound(%d) differ: %v/%v vs %v/%v", ia, a.Value(ia), a.LowerBound(ia), b.Value(ia), b.LowerBound(ia))
		}
	}
	return ""
}

// serializedForms reads a mapping back through every serialized form.
func serializedForms(m mapping.IndexMapping) (map[string]mapping.IndexMapping, string) {
	out := map[string]mapping.IndexMapping{}
	var b []byte
	b = append(b, 0x5a)
	m.Encode(&b)
	if b[0] != 0x5a {
		return nil, "Encode changed the caller's buffer prefix"
	}
	rest := b[1:]
	fl, err := enc.DecodeFlag(&rest)
	if err != nil || fl.Type() != enc.FlagTypeIndexMapping {
		return nil, fmt.Sprintf("binary form does not start with an index-mapping flag (%v, %v)", fl, err)
	}
	d, err := mapping.Decode(&rest, fl)
	if err != nil || len(rest) != 0 {
		return nil, fmt.Sprintf("binary form does not decode (%v), %d bytes left", err, len(rest))
	}
	out["binary"] = d
	p, err := mapping.FromProto(m.ToProto())
	if err != nil {
		return nil, "FromProto(ToProto()) failed: " + err.Error()
	}
	out["proto"] = p
	bs, err := proto.Marshal(m.ToProto())
	if err != nil {
		return nil, err.Error()
	}
	msg := &sketchpb.IndexMapping{}
	if err := proto.Unmarshal(bs, msg); err != nil {
		return nil, err.Error()
	}
	p2, err := mapping.FromProto(msg)
	if err != nil {
		return nil, "FromProto(Unmarshal(Marshal(ToProto()))) failed: " + err.Error()
	}
	out["proto-marshalled"] = p2
	var buf writerBuf
	m.EncodeProto(sketchpb.NewIndexMappingBuilder(&buf))
	msg2 := &sketchpb.IndexMapping{}
	if err := proto.Unmarshal(buf.b, msg2); err != nil {
		return nil, "bytes of EncodeProto do not unmarshal: " + err.Error()
	}
	p3, err := mapping.FromProto(msg2)
	if err != nil {
		return nil, "FromProto(streamed bytes) failed: " + err.Error()
	}
	out["proto-streamed"] = p3
	// inside a sketch encoding
	sk := ddsketch.NewDDSketchFromStoreProvider(m, providerOf("sparse"))
	sk.Add(1)
	var sb []byte
	sk.Encode(&sb, false)
	dsk, err := ddsketch.DecodeDDSketch(sb, providerOf("sparse"), nil)
	if err != nil {
		return nil, "a sketch encoding with this mapping does not decode: " + err.Error()
	}
	out["sketch-encoding"] = dsk.IndexMapping
	return out, ""
}

func (c *Ctx) runMappingPairs(thorough bool) {
	if !c.phase("mapping identity") {
		return
	}
	rng := rand.New(rand.NewSource(c.Seed*17 + 1))
	var extraA, extraO []float64
	nExtra := 0
	if thorough {
		nExtra = 6
	}
	for i := 0; i < nExtra; i++ {
		extraA = append(extraA, math.Pow(10, -6+rng.Float64()*5.9))
		extraO = append(extraO, math.Round((rng.Float64()-0.5)*2e5*100)/100)
	}
	ng, no := len(gammaAlphas)+len(extraA), len(offsetVals)+len(extraO)
	toks := func(n int) []int {
		out := make([]int, n)
		for i := range out {
			out[i] = i + 1
		}
		return out
	}
	cfg := fmt.Sprintf(`SPECIFICATION Spec
CONSTANTS
  Kinds <- AllKinds
  GammaToks = %s
  OffsetToks = %s
INVARIANTS M_RoundTrip M_Injective M_Equality Emit
CHECK_DEADLOCK FALSE
`, tlaSet(toks(ng)), tlaSet(toks(no)))
	built := map[mapTok]mapping.IndexMapping{}
	forms := map[mapTok]map[string]mapping.IndexMapping{}
	get := func(t mapTok) mapping.IndexMapping {
		if m, ok := built[t]; ok {
			return m
		}
		m, err := buildTok(t, extraA, extraO)
		if err != nil {
			infraFail("cannot build mapping %+v: %v", t, err)
		}
		built[t] = m
		return m
	}
	fromAccuracyConsistency(c, rng)
	var n, drift int64
	var parseErr error
	res := c.runTLC(TLCOpts{Module: "MappingId", Cfg: cfg, Purpose: "mapping identity", Constants: fmt.Sprintf("3 kinds x %d gamma tokens x %d offset tokens, all ordered pairs", ng, no),
		OnBeh: func(line []byte) {
			var p struct {
				A     mapTok `json:"a"`
				B     mapTok `json:"b"`
				Equal bool   `json:"equal"`
			}
			if err := json.Unmarshal(line, &p); err != nil {
				if parseErr == nil {
					parseErr = err
				}
				return
			}
			n++
			ma, mb := get(p.A), get(p.B)
			if n <= 2 {
				c.addSample(map[string]interface{}{"pipeline": "MappingId ordered pair", "a": p.A, "b": p.B, "equal": p.Equal})
			}
			c.addDistinct(fmt.Sprintf("%v|%v", p.A, p.B))
			if got := ma.Equals(mb); got != p.Equal {
				c.report(&Violation{Pipeline: "mappingid", Case: p, What: fmt.Sprintf("Equals(%+v, %+v) = %v, specification says %v", p.A, p.B, got, p.Equal), Tags: map[string]string{"outcome": "equals"}})
			}
			if p.A == p.B {
				f, prob := serializedForms(ma)
				if prob != "" {
					c.report(&Violation{Pipeline: "mappingid", Case: p, What: fmt.Sprintf("mapping %+v: %s", p.A, prob), Tags: map[string]string{"outcome": "form"}})
					return
				}
				forms[p.A] = f
				for name, r := range f {
					if fmt.Sprintf("%T", r) != fmt.Sprintf("%T", ma) || !r.Equals(ma) || !ma.Equals(r) {
						c.report(&Violation{Pipeline: "mappingid", Case: p, What: fmt.Sprintf("mapping %+v read back from its %s form is not equal to the original (%T vs %T)", p.A, name, r, ma), Tags: map[string]string{"outcome": "form"}})
					} else if d := sameBehaviour(ma, r, rng); d != "" {
						c.report(&Violation{Pipeline: "mappingid", Case: p, What: fmt.Sprintf("mapping %+v read back from its %s form maps differently: %s", p.A, name, d), Tags: map[string]string{"outcome": "form"}})
					}
				}
			} else if fb, ok := forms[p.B]; ok {
				// a restored form of b compares with a like b does
				for name, r := range fb {
					if ma.Equals(r) != p.Equal {
						drift++
						c.report(&Violation{Pipeline: "mappingid", Case: p, What: fmt.Sprintf("Equals(%+v, %s form of %+v) = %v, specification says %v", p.A, name, p.B, !p.Equal, p.Equal), Tags: map[string]string{"outcome": "equals"}})
					}
				}
			}
		}})
	if parseErr != nil {
		infraFail("cannot parse pair: %v", parseErr)
	}
	if res.Violated != "" {
		infraFail("MappingId.tla violated %s\n%s", res.Violated, res.ErrorText)
	}
	c.mu.Lock()
	c.Ev.Coverage.Traces += n
	c.Ev.Coverage.Evaluations += n
	c.Ev.Coverage.StepsCompared += n
	c.Ev.Coverage.States += res.Distinct
	c.Ev.Coverage.Transitions += res.Generated
	c.mu.Unlock()
	fmt.Printf("  [mapping identity] %d ordered pairs of %d mappings, 5 serialized forms each %.0fs\n", n, len(built), time.Since(c.phaseStart).Seconds())
}

// constructor acceptance table (C13)
func runConstructorTableImpl(c *Ctx) {
	if !c.phase("constructor table") {
		return
	}
	cfg := `SPECIFICATION Spec
CONSTANTS
  Kinds <- AllKinds
  GammaToks = {1}
  OffsetToks = {1}
INVARIANTS EmitTable
CHECK_DEADLOCK FALSE
`
	var table struct {
		Accuracy map[string]bool `json:"accuracy"`
		Gamma    map[string]bool `json:"gamma"`
	}
	got := false
	res := c.runTLCTable(TLCOpts{Module: "MappingId", Cfg: cfg, Purpose: "constructor acceptance table"}, func(line []byte) {
		if !got {
			if err := json.Unmarshal(line, &table); err != nil {
				infraFail("constructor table: %v", err)
			}
			got = true
		}
	})
	_ = res
	if !got {
		infraFail("MappingId.tla did not print the constructor table")
	}
	accVals := map[string][]float64{"negative": {-0.01, -1, -math.MaxFloat64}, "zero": {0, math.Copysign(0, -1)}, "tiny": {math.SmallestNonzeroFloat64, 1e-300, 1e-9},
		"mid": {0.01, 0.5, 0.001}, "almost-one": {math.Nextafter(1, 0), 0.99}, "one": {1}, "above-one": {math.Nextafter(1, 2), 2, math.Inf(1)}}
	gamVals := map[string][]float64{"below-one": {0.5, 0, -3, math.Nextafter(1, 0), math.Inf(-1)}, "one": {1}, "just-above-one": {math.Nextafter(1, 2), 1.0001}, "two": {2, 1e6}}
	n := 0
	for tok, vals := range accVals {
		for _, v := range vals {
			if tok == "tiny" && v < 1e-9 {
				// an accuracy of 5e-324 or 1e-300 gives a base that rounds to 1: the constructors' own contract (base above one) then decides; not compared
				continue
			}
			ctors := map[string]func(float64) error{
				"NewLogarithmicMapping":                        func(a float64) error { _, e := mapping.NewLogarithmicMapping(a); return e },
				"NewLinearlyInterpolatedMapping":               func(a float64) error { _, e := mapping.NewLinearlyInterpolatedMapping(a); return e },
				"NewCubicallyInterpolatedMapping":              func(a float64) error { _, e := mapping.NewCubicallyInterpolatedMapping(a); return e },
				"NewDefaultMapping":                            func(a float64) error { _, e := mapping.NewDefaultMapping(a); return e },
				"NewDefaultDDSketch":                           func(a float64) error { _, e := ddsketch.NewDefaultDDSketch(a); return e },
				"LogUnboundedDenseDDSketch":                    func(a float64) error { _, e := ddsketch.LogUnboundedDenseDDSketch(a); return e },
				"LogCollapsingLowestDenseDDSketch":             func(a float64) error { _, e := ddsketch.LogCollapsingLowestDenseDDSketch(a, 8); return e },
				"LogCollapsingHighestDenseDDSketch":            func(a float64) error { _, e := ddsketch.LogCollapsingHighestDenseDDSketch(a, 8); return e },
				"NewDefaultDDSketchWithExactSummaryStatistics": func(a float64) error { _, e := ddsketch.NewDefaultDDSketchWithExactSummaryStatistics(a); return e },
			}
			for name, f := range ctors {
				n++
				err := f(v)
				if (err == nil) != table.Accuracy[tok] {
					c.report(&Violation{Pipeline: "constructors", Case: map[string]interface{}{"constructor": name, "accuracy": v}, What: fmt.Sprintf("%s(%v): error=%v, the contract says accepted=%v (accuracy must be in (0,1))", name, v, err, table.Accuracy[tok]), Tags: map[string]string{"outcome": "constructor"}})
				}
			}
		}
	}
	for tok, vals := range gamVals {
		for _, v := range vals {
			ctors := map[string]func(float64) error{
				"NewLogarithmicMappingWithGamma":           func(g float64) error { _, e := mapping.NewLogarithmicMappingWithGamma(g, 0); return e },
				"NewLinearlyInterpolatedMappingWithGamma":  func(g float64) error { _, e := mapping.NewLinearlyInterpolatedMappingWithGamma(g, 1.5); return e },
				"NewCubicallyInterpolatedMappingWithGamma": func(g float64) error { _, e := mapping.NewCubicallyInterpolatedMappingWithGamma(g, -2); return e },
			}
			for name, f := range ctors {
				n++
				err := f(v)
				if (err == nil) != table.Gamma[tok] {
					c.report(&Violation{Pipeline: "constructors", Case: map[string]interface{}{"constructor": name, "gamma": v}, What: fmt.Sprintf("%s(%v, ...): error=%v, the contract says accepted=%v (base must be above one)", name, v, err, table.Gamma[tok]), Tags: map[string]string{"outcome": "constructor"}})
				}
			}
		}
	}
	c.mu.Lock()
	c.Ev.Coverage.Evaluations += int64(n)
	c.mu.Unlock()
	c.extra("constructor_calls", n)
	fmt.Printf("  [constructor table] %d constructor calls against MappingId.tla's acceptance table %.0fs\n", n, time.Since(c.phaseStart).Seconds())
}

func init() {
	checks["C19"] = func(c *Ctx) {
		c.Ev.Coverage.Rule = "MappingId.tla models a mapping as the triple (kind, gamma token, offset token) with its binary block, protobuf message and streamed protobuf as images; TLC checks M_RoundTrip, M_Injective, M_Equality (reflexive, symmetric, kind-discriminating) over all ordered pairs of 3 kinds x 6 gamma x 5 offset tokens (thorough: + random accuracies/offsets) and emits every pair with the specification's Equals; on real mappings (alpha in {1e-6,1e-3,0.01,0.0101,0.5,0.99}, offsets {0, default, 1.5, -1234, 1e6}) Equals must agree on every ordered pair, every mapping read back from its binary / protobuf / marshalled / streamed protobuf / sketch-encoding form must be equal to the original, of the same kind, and agree bitwise on Index/Value/LowerBound at 200 probe values across the indexable range; mappings built from an accuracy and from the corresponding base and offset must be equal."
		c.Ev.Coverage.CheckerCmd = "./check C19 " + c.Tier
		c.Ev.Assumptions = []string{"gamma/offset tokens stand for values >= 0.1% apart"}
		c.runMappingPairs(!c.quick())
	}
}
