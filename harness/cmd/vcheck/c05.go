package main

import "fmt"

func init() { checks["C05"] = checkC05 }

var opsC05Tree = []string{"Add", "AddWithCount", "Merge", "CopyTo", "Clear", "Reweight", "EncDec"}
var opsC05All = []string{"Add", "AddWithCount", "AddBin", "Merge", "CopyTo", "Clear", "Reweight", "EncDec", "Proto", "Read"}

// C05 - collapsing stores stay bounded, conserve weight and clamp correctly
func checkC05(c *Ctx) {
	c.Ev.Coverage.Rule = "TLC model-checks the operational collapsing design of Store.tla against the declarative fold (S_Fold, S_Span, S_Conserve) for pairs of slot kinds/bin limits, then enumerates every history (exhaustive tree) and long random histories over collapsing/exact slot pairs; each is replayed on real CollapsingLowest/HighestDenseStore (and dense/sparse/paginated partners) under index translations, comparing every observable of every slot after every step with ==; a panic is a disagreement. distinct_nontrivial counts distinct (abstract state, event) pairs exercised on the implementation."
	c.Ev.Coverage.CheckerCmd = "./check C05 " + c.Tier
	c.Ev.Assumptions = []string{"weights are dyadic so float64 sums are exact", "bin limits N in 1..7 in direction A (larger N in recorded traces)"}
	type pair struct{ a, b ModelKind }
	mcPairs := []pair{{ModelKind{"low", 2}, ModelKind{"high", 3}}, {ModelKind{"low", 3}, ModelKind{"low", 1}},
		{ModelKind{"high", 3}, ModelKind{"high", 1}}, {ModelKind{"exact", 0}, ModelKind{"low", 2}}}
	keys, maxTotal := "MCKeysQuick", 4
	if !c.quick() {
		mcPairs = append(mcPairs, pair{ModelKind{"low", 2}, ModelKind{"low", 4}}, pair{ModelKind{"high", 2}, ModelKind{"high", 4}},
			pair{ModelKind{"exact", 0}, ModelKind{"high", 2}}, pair{ModelKind{"low", 1}, ModelKind{"high", 1}})
		keys, maxTotal = "MCKeys", 5
	}
	for _, p := range mcPairs {
		c.runStoreMC([]ModelKind{p.a, p.b}, "OpsCore", keys, maxTotal, fmt.Sprintf("%s%d x %s%d", p.a.Kind, p.a.N, p.b.Kind, p.b.N))
	}
	c.runDenseImplMC("IK_Low2Low4", 2, "lowest-collapsing 2 x 4 (array level)")
	c.runDenseImplMC("IK_Low3High2", 1, "lowest 3 x highest 2 (array level)")
	if !c.quick() {
		c.runDenseImplMC("IK_High2High4", 2, "highest-collapsing 2 x 4 (array level)")
		// (the unbounded dense partner with array overhead 3 makes the large constants run for over half an hour: small ones)
		c.runDenseImplMCSized("IK_ExactLow2", 3, "dense x lowest-collapsing 2 (array level)", false)
	}
	treePairs := []pair{{ModelKind{"low", 2}, ModelKind{"low", 4}}, {ModelKind{"high", 2}, ModelKind{"high", 4}},
		{ModelKind{"low", 3}, ModelKind{"high", 2}}, {ModelKind{"exact", 0}, ModelKind{"low", 2}}}
	if !c.quick() {
		treePairs = append(treePairs, pair{ModelKind{"exact", 0}, ModelKind{"high", 3}}, pair{ModelKind{"low", 1}, ModelKind{"low", 3}},
			pair{ModelKind{"high", 1}, ModelKind{"high", 3}}, pair{ModelKind{"high", 3}, ModelKind{"exact", 0}})
	}
	for _, p := range treePairs {
		c.runStoreGen(&StoreGen{Kinds: []ModelKind{p.a, p.b}, Keys: []int{0, 2, 4}, Q: 4, Weights: []int{6}, Factors: [][2]int{{3, 2}, {1, 2}},
			Ops: opsC05Tree, Depth: c.pick(3, 4)}, c.pick(4, 8), fmt.Sprintf("exhaustive tree %s%d x %s%d", p.a.Kind, p.a.N, p.b.Kind, p.b.N))
	}
	for _, p := range []pair{{ModelKind{"low", 2}, ModelKind{"low", 3}}, {ModelKind{"high", 2}, ModelKind{"high", 3}}} {
		c.runStoreGen(&StoreGen{Kinds: []ModelKind{p.a, p.b}, Keys: []int{0, 2, 4}, Q: 4, Weights: []int{6}, Ops: []string{"Add", "Merge", "Clear", "CopyTo"},
			Depth: c.pick(4, 5)}, c.pick(3, 4), fmt.Sprintf("deep narrow tree add/merge/clear/copy %s%d x %s%d", p.a.Kind, p.a.N, p.b.Kind, p.b.N))
	}
	// directed scenarios: a narrow receiver (two adjacent indexes, either order, so that the array offset sits on either
	// side), a wider argument of the same kind with a larger limit filled in canonical order, merges of the argument into
	// the receiver only. Seven events are needed before the fast same-kind merge has to shift and fold at once.
	type directed struct {
		kind   string
		n1, n2 int
		keys2  []int
	}
	dirs := []directed{{"high", 3, 4, []int{0, 1, 2, 3}}, {"low", 3, 4, []int{0, 1, 2, 3}}}
	if !c.quick() {
		dirs = append(dirs, directed{"high", 2, 4, []int{0, 1, 2, 3}}, directed{"low", 2, 4, []int{0, 1, 2, 3}},
			directed{"high", 2, 3, []int{0, 1, 2, 3}}, directed{"low", 2, 3, []int{0, 1, 2, 3}},
			directed{"high", 3, 5, []int{0, 1, 2, 3, 4}}, directed{"low", 3, 5, []int{0, 1, 2, 3, 4}})
	}
	for _, d := range dirs {
		g := &StoreGen{Kinds: []ModelKind{{d.kind, d.n1}, {d.kind, d.n2}}, Keys: d.keys2, SlotKeys: [][]int{{1, 2}, d.keys2}, Pairs: [][2]int{{2, 1}},
			Q: 4, Weights: []int{6}, Ops: []string{"Add", "Merge"}, Depth: len(d.keys2) + 3}
		if d.kind == "high" {
			g.Asc = []int{2}
		} else {
			g.Desc = []int{2}
		}
		c.runStoreGen(g, c.pick(3, 4), fmt.Sprintf("directed deep tree: narrow %s%d receiver, wide %s%d argument", d.kind, d.n1, d.kind, d.n2))
	}
	// larger limits: where the array is centred depends on the limit (a first add at x covers [x-N/2, x+(N-1)/2]), so
	// "the argument reaches below the array but the receiver's content stays inside the new edge" needs N >= 5
	for _, p := range []pair{{ModelKind{"high", 5}, ModelKind{"high", 6}}, {ModelKind{"low", 5}, ModelKind{"low", 6}}} {
		c.runStoreGen(&StoreGen{Kinds: []ModelKind{p.a, p.b}, Keys: []int{0, 1, 2, 3, 4, 5}, Q: 4, Weights: []int{6}, Ops: []string{"Add", "Merge", "Clear"},
			Depth: c.pick(4, 5)}, c.pick(3, 4), fmt.Sprintf("tree with larger limits %s%d x %s%d", p.a.Kind, p.a.N, p.b.Kind, p.b.N))
	}
	simKinds := [][]ModelKind{
		{{"low", 2}, {"low", 4}, {"exact", 0}}, {{"high", 2}, {"high", 4}, {"exact", 0}}, {{"low", 3}, {"high", 3}, {"low", 1}},
		{{"high", 1}, {"exact", 0}, {"high", 3}}, {{"high", 5}, {"high", 7}, {"low", 5}, {"low", 7}}}
	for _, ks := range simKinds {
		keys := []int{0, 1, 2, 3, 4}
		if len(ks) == 4 {
			keys = []int{0, 1, 2, 3, 4, 5, 6, 7, 8}
		}
		c.runStoreGen(&StoreGen{Kinds: ks, Keys: keys, Q: 4, Weights: []int{0, 1, 2, 4, 8, 12},
			Factors: [][2]int{{1, 4}, {1, 2}, {2, 1}, {3, 1}}, Ops: opsC05All, Depth: c.pick(14, 24),
			Simulate: true, Num: c.pick(800, 15000)}, c.pick(8, 16), fmt.Sprintf("simulated %v", ks))
	}
	c.runStoreTraces(c.pick(24, 100), traceGenOpts{Events: c.pick(400, 2000), Kinds: []string{"low", "high", "low", "high", "dense", "sparse", "paged"},
		Limits: []int{1, 2, 3, 8, 128, 2048},
		Ops:    []string{"Add", "Add", "AddWithCount", "AddWithCount", "AddBin", "AddRepeat", "Merge", "Merge", "CopyTo", "Clear", "Reweight", "EncDec", "Proto", "Read"}}, "collapsing stores")
	c.runStoreTraces(c.pick(12, 50), traceGenOpts{Layout: true, MaxWidth: 60, Events: c.pick(300, 1500), Kinds: []string{"low", "high", "low", "high", "dense", "paged"},
		Limits: []int{1, 2, 3, 8, 32, 128}, Ops: []string{"Add", "AddWithCount", "AddRepeat", "Merge", "Merge", "CopyTo", "Clear", "Reweight", "EncDec", "Read"}}, "collapsing stores, array layout")
	// sketch level (last clause of C05): sketches built on collapsing stores hold the folded content and answer every
	// quantile with a value of a bin the specification allows at that rank on the folded content (retained bins keep
	// the accuracy guarantee; answers in the edge bin are that bin), min/max are the clamped extremes
	mxs := &SketchMatrix{Mappings: mappingMatrix([]float64{0.01, 0.1}, nil), Reals: exactRealKinds,
		Aspects: map[string]bool{"bins": true, "quantile": true, "minmax": true, "coherence": true}}
	for _, ks := range [][]SketchInit{
		sketches("plain", mk("low", 2), mk("low", 3), mk("high", 2), mk("high", 1)),
		sketches("plain", mk("high", 3), mk("low", 2), ex0, ex0),
		// the library's ready-made collapsing sketches (same kind and limit on both sides; built by the preset constructors)
		sketches("plain", mk("low", 3), mk("low", 3), mk("low", 3), mk("low", 3), mk("high", 2), mk("high", 2))} {
		simc := &SketchGen{Init: ks, Tokens: append(append([]int{}, tokBins3...), 0, 2, 16, 17, -16, -17), Weights: []int{1, 2, 4, 8},
			Ops: []string{"Add", "AddW", "Merge", "Copy", "Clear", "EncDec", "DecodeNew"}, Q: 4, QDen: 8, Depth: c.pick(12, 20), Simulate: true, Num: c.pick(600, 8000)}
		c.runSketchGen(simc, mxs, c.pick(6, 12), "sketches on collapsing stores")
	}
	treeS := &SketchGen{Init: sketches("plain", mk("high", 2), mk("low", 2)), Tokens: []int{10, 12, 14, 16, -10, -12, -14}, Ops: []string{"Add"}, Q: 4, QDen: 8, Depth: c.pick(4, 5)}
	c.runSketchGen(treeS, mxs, c.pick(6, 12), "exhaustive tree of adds into a sketch on collapsing stores")
}
