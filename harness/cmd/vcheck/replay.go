package main

import (
	"encoding/json"
	"fmt"
	"os"
)

// replayFile re-executes a replay file against the current tree.
func replayFile(path string) {
	b, err := os.ReadFile(path)
	if err != nil {
		infraFail("%v", err)
	}
	var v struct {
		Property string          `json:"property"`
		Pipeline string          `json:"pipeline"`
		Config   json.RawMessage `json:"config"`
		Case     json.RawMessage `json:"case"`
	}
	if err := json.Unmarshal(b, &v); err != nil {
		infraFail("%v", err)
	}
	r, ok := replayers[v.Pipeline]
	if !ok {
		infraFail("no replayer for pipeline %q", v.Pipeline)
	}
	what := r(v.Config, v.Case)
	if what == "" {
		fmt.Println("NOT-REPRODUCED")
		os.Exit(2)
	}
	fmt.Printf("VIOLATION property=%s replay=%s\n  what: %s\n", v.Property, path, what)
	os.Exit(1)
}

var replayers = map[string]func(cfg, cs json.RawMessage) string{
	"store": func(cfg, cs json.RawMessage) string {
		var sc StoreCfg
		var beh []StoreStep
		if json.Unmarshal(cfg, &sc) != nil || json.Unmarshal(cs, &beh) != nil {
			infraFail("bad store replay file")
		}
		if mm := replayStore(beh, &sc); mm != nil {
			return fmt.Sprintf("step %d: %s", mm.Step, mm.What)
		}
		return ""
	},
}
