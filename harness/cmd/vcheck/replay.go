package main

import (
	"encoding/json"
	"fmt"
	"os"
)

// replayFile re-executes a replay file against the current tree.
func replayFile(path string) {
	b, err := os.ReadFile(path)
	if err != nil {
		infraFail("%v", err)
	}
	var v struct {
		Property string          `json:"property"`
		Pipeline string          `json:"pipeline"`
		Config   json.RawMessage `json:"config"`
		Case     json.RawMessage `json:"case"`
	}
	if err := json.Unmarshal(b, &v); err != nil {
		infraFail("%v", err)
	}
	r, ok := replayers[v.Pipeline]
	if !ok {
		infraFail("no replayer for pipeline %q", v.Pipeline)
	}
	what := r(v.Config, v.Case)
	if what == "" {
		fmt.Println("NOT-REPRODUCED")
		os.Exit(2)
	}
	fmt.Printf("VIOLATION property=%s replay=%s\n  what: %s\n", v.Property, path, what)
	os.Exit(1)
}

func init() {
	replayers["sketch"] = func(cfg, cs json.RawMessage) string {
		var sc SketchCfg
		var beh []SkStep
		if json.Unmarshal(cfg, &sc) != nil || json.Unmarshal(cs, &beh) != nil {
			infraFail("bad sketch replay file")
		}
		if mm := replaySketch(beh, &sc); mm != nil {
			return fmt.Sprintf("step %d: %s", mm.Step, mm.What)
		}
		return ""
	}
	replayers["wire"] = func(cfg, cs json.RawMessage) string {
		var wc WireCfg
		var c WireCase
		if json.Unmarshal(cfg, &wc) != nil || json.Unmarshal(cs, &c) != nil {
			infraFail("bad wire replay file")
		}
		if mm := replayWire(&c, &wc); mm != nil {
			return fmt.Sprintf("cut %d: %s", mm.Cut, mm.What)
		}
		return ""
	}
	replayers["dataset"] = func(cfg, cs json.RawMessage) string {
		var dc DsCfg
		var beh []DsStep
		if json.Unmarshal(cfg, &dc) != nil || json.Unmarshal(cs, &beh) != nil {
			infraFail("bad dataset replay file")
		}
		if st, what := replayDataset(beh, &dc); what != "" {
			return fmt.Sprintf("step %d: %s", st, what)
		}
		return ""
	}
	replayers["varint"] = func(cfg, cs json.RawMessage) string {
		var v vecWord
		if json.Unmarshal(cs, &v) != nil {
			infraFail("bad varint replay file")
		}
		if v.Kind == "word" {
			w, _ := checkWordVector(&v)
			return w
		}
		return checkStringVector(&v)
	}
}

var replayers = map[string]func(cfg, cs json.RawMessage) string{
	"store": func(cfg, cs json.RawMessage) string {
		var sc StoreCfg
		var beh []StoreStep
		if json.Unmarshal(cfg, &sc) != nil || json.Unmarshal(cs, &beh) != nil {
			infraFail("bad store replay file")
		}
		if mm := replayStore(beh, &sc); mm != nil {
			return fmt.Sprintf("step %d: %s", mm.Step, mm.What)
		}
		return ""
	},
}

// trace-based pipelines: the replay file names a kept trace; it is validated again by TLC
func init() {
	traceReplayer := func(module, cfg string) func(cfgRaw, cs json.RawMessage) string {
		return func(cfgRaw, cs json.RawMessage) string {
			var c struct {
				TraceFile string `json:"trace_file"`
			}
			if json.Unmarshal(cs, &c) != nil || c.TraceFile == "" {
				infraFail("this replay file does not name a trace file; re-run the property's check with the recorded VERIF_SEED instead")
			}
			ctx := newCtx("replay", "quick")
			defer ctx.cleanup()
			res := ctx.runTLC(TLCOpts{Module: module, Cfg: cfg, Purpose: "replay", Workers: 1, Env: []string{"VERIF_TRACE=" + c.TraceFile}})
			if res.Violated != "" {
				return fmt.Sprintf("%s rejects the recorded trace %s at line %d (%s)", module, c.TraceFile, res.LastL-1, res.Violated)
			}
			return ""
		}
	}
	replayers["storetrace"] = traceReplayer("Trace_Store", traceStoreCfg)
	replayers["sketchtrace"] = traceReplayer("Trace_Sketch", fmt.Sprintf(traceSketchCfgFmt, skTraceQ))
	replayers["varint-trace"] = traceReplayer("Trace_Varint", traceVarintCfg)
	replayers["wire-producer"] = traceReplayer("Trace_Wire", traceWireCfg)
	replayers["proto"] = func(cfgRaw, cs json.RawMessage) string {
		pc := &protoCase{}
		if json.Unmarshal(cs, pc) != nil {
			infraFail("bad proto replay file")
		}
		return checkProtoCase(pc)
	}
}
