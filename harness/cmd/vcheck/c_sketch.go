package main

func init() {
	checks["C02"] = checkC02
	checks["C10"] = checkC10
	checks["C12"] = checkC12
	checks["C13"] = checkC13
	checks["C14"] = checkC14
	checks["C15"] = checkC15
	checks["C16"] = checkC16
}

const relTrust = "abstraction relation R (token concretisation by bisection on the real Index(); |y-x| <= alpha|x| + 2e-12|x|)"

func mk(kind string, n int) ModelKind { return ModelKind{kind, n} }

func sketches(variant string, kinds ...ModelKind) []SketchInit {
	// kinds: pos,neg per slot
	var out []SketchInit
	for i := 0; i+1 < len(kinds); i += 2 {
		out = append(out, SketchInit{Variant: variant, M: 1, Pos: kinds[i], Neg: kinds[i+1]})
	}
	return out
}

var ex0 = ModelKind{"exact", 0}

// C02 - sketches are fully mergeable
func checkC02(c *Ctx) {
	c.Ev.Coverage.Rule = "TLC checks K_Merge/K_Content of Sketch.tla (content of any merge tree = content implied by the union of the absorbed multisets) and K_OnlyReceiverChanges over 3 slots with Add/Merge/Clear in any order, then emits every such history (tree) and long random ones; each is replayed on real sketches for every mix of non-collapsing store kinds, mappings and alphas. After every Merge and at the end, the receiver must answer EXACTLY (bins, zero weight, count, min, max, every q=a/8, bit for bit) like a single fresh sketch fed the multiset the specification attributes to it; the merge argument's answers must not change (snapshot before/after)."
	c.Ev.Coverage.CheckerCmd = "./check C02 " + c.Tier
	c.Ev.Assumptions = []string{"the union multiset is decided by the specification's ghost bag; the comparison is real sketch vs real sketch", "dyadic weights"}
	c.Ev.Coverage.TrustedBase = []string{relTrust}
	three := plainExact(3, "plain")
	toks := []int{10, 13, -11, 0}
	g := &SketchGen{Init: three, Tokens: toks, Ops: []string{"Add", "Merge", "Clear"}, Q: 4, QDen: 8}
	c.runSketchMC(g, c.pick(8, 12), "TypeOK K_Content K_Merge K_Rank K_Monotone", "K_OnlyReceiverChanges K_ClearIsInit K_Refused", "3 sketches, add/merge/clear")
	mx := &SketchMatrix{Mappings: mappingMatrix(c.alphas(), nil), Reals: exactRealKinds, Modes: []string{"every"},
		Aspects: map[string]bool{"twin-merge": true, "pure": true}}
	tree := &SketchGen{Init: three, Tokens: []int{11, -10}, Ops: []string{"Add", "Merge", "Clear"}, Q: 4, QDen: 8, Depth: c.pick(4, 5)}
	c.runSketchGen(tree, mx, c.pick(4, 8), "exhaustive tree add/merge/clear")
	sim := &SketchGen{Init: plainExact(3, "plain"), Tokens: append(append([]int{}, tokBins3...), 0, -1, 2, -3), Weights: []int{1, 4, 8, 132},
		Ops: []string{"Add", "AddW", "Merge", "Merge", "EncDec", "Clear", "Copy"}, Q: 4, QDen: 8, Depth: c.pick(14, 24), Simulate: true, Num: c.pick(1500, 20000)}
	c.runSketchGen(sim, mx, c.pick(8, 16), "simulated merge trees (MergeWith and DecodeAndMergeWith)")
	// both variants merge their exact statistics too
	simx := &SketchGen{Init: plainExact(3, "exact"), Tokens: append(append([]int{}, tokBins2...), 0, 2), Weights: []int{1, 4, 8},
		Ops: []string{"Add", "AddW", "Merge", "Clear"}, Q: 4, QDen: 8, Depth: c.pick(10, 16), Simulate: true, Num: c.pick(500, 5000)}
	c.runSketchGen(simx, mx, c.pick(6, 12), "simulated merge trees, exact-statistics variant")
	// direction B: inputs of thousands of values split over 3 sketches and merged; quantiles of the merged sketches
	// validated by TLC against the union bag (Trace_Sketch)
	c.runSketchTraces(c.pick(4, 20), false, c.pick(800, 2000), "split inputs merged, q at every k/(n-1)")
}

// C12 - summary queries are mutually coherent and alpha-accurate
func checkC12(c *Ctx) {
	c.Ev.Coverage.Rule = "TLC checks K_Content, K_Ends, K_Monotone (count = absorbed weight, extremes, monotone answers inside [min,max]) on Sketch.tla incl. collapsing store kinds and merge/copy/clear/decode actions, then emits histories; each is replayed on real sketches (all store kinds incl. collapsing, all mappings/alphas) and after every step count/emptiness/zero weight (==), min/max (within alpha of the specification's extreme token, exactly 0 for the zero bucket, the clamped bin for collapsing stores), monotonicity over q=a/8, containment in [min,max], batch==single queries, ForEach (one callback per non-empty bin, positive weights, total = count, stops after k) and GetSum (same-signed data) are checked."
	c.Ev.Coverage.CheckerCmd = "./check C12 " + c.Tier
	c.Ev.Assumptions = []string{"sums whose magnitude approaches MaxFloat64 are not compared (overflow)", "dyadic weights"}
	c.Ev.Coverage.TrustedBase = []string{relTrust}
	asp := map[string]bool{"coherence": true, "quantile": true}
	one := plainExact(1, "plain")
	g := &SketchGen{Init: one, Tokens: []int{10, 13, -10, -13, 0, 2}, Weights: []int{2, 4}, Ops: []string{"Add", "AddW", "Clear"}, Q: 4, QDen: 8}
	c.runSketchMC(g, c.pick(16, 20), "TypeOK K_Content K_Ends K_Monotone K_Rank", "K_ClearIsInit", "1 sketch, all sign mixes")
	gc := &SketchGen{Init: sketches("plain", mk("low", 2), mk("high", 2), ex0, ex0), Tokens: []int{10, 12, 14, -10, -12, -14, 0},
		Ops: []string{"Add", "Merge", "Clear"}, Q: 4, QDen: 8}
	c.runSketchMC(gc, c.pick(8, 12), "TypeOK K_Content K_Ends K_Monotone K_Rank", "K_ClearIsInit", "collapsing stores")
	mx := &SketchMatrix{Mappings: mappingMatrix(c.alphas(), nil), Reals: exactRealKinds, Aspects: asp}
	tree := &SketchGen{Init: one, Tokens: []int{10, 13, -10, -13, 0, 2, -3}, Weights: []int{2}, Ops: []string{"Add", "AddW", "Clear"}, Q: 4, QDen: 8, Depth: c.pick(4, 5)}
	c.runSketchGen(tree, mx, c.pick(4, 8), "exhaustive tree, all sign mixes")
	sim := &SketchGen{Init: plainExact(2, "plain"), Tokens: append(append([]int{}, tokBins3...), tokZero...), Weights: []int{1, 2, 4, 8, 12},
		Ops: []string{"Add", "AddW", "Merge", "Copy", "Clear", "EncDec", "DecodeNew", "Proto"}, Q: 4, QDen: 8, Depth: c.pick(12, 24), Simulate: true, Num: c.pick(1500, 20000)}
	c.runSketchGen(sim, mx, c.pick(8, 16), "simulated histories, non-collapsing")
	// "any sketch" includes the variant with exact statistics: its count, emptiness, extremes and clamped quantile
	// answers must stay coherent with its bins after the same histories (copies must not share what they count with)
	simx := *sim
	simx.Init, simx.Num = plainExact(2, "exact"), c.pick(600, 15000)
	mxx := &SketchMatrix{Mappings: mappingMatrix(c.alphas(), nil), Reals: exactRealKinds, Aspects: map[string]bool{"coherence": true, "exact": true}}
	c.runSketchGen(&simx, mxx, c.pick(6, 12), "simulated histories, exact-statistics variant")
	for _, ks := range [][]SketchInit{
		sketches("plain", mk("low", 2), mk("low", 3), mk("high", 2), mk("high", 1)),
		sketches("plain", mk("low", 3), mk("high", 2), ex0, ex0),
		sketches("plain", mk("high", 4), mk("low", 4), mk("low", 1), ex0)} {
		simc := &SketchGen{Init: ks, Tokens: append(append([]int{}, tokBins3...), 0, 2, 16, 17, -16, -17), Weights: []int{1, 2, 4, 8},
			Ops: []string{"Add", "AddW", "Merge", "Copy", "Clear", "EncDec", "DecodeNew"}, Q: 4, QDen: 8, Depth: c.pick(12, 20), Simulate: true, Num: c.pick(600, 8000)}
		c.runSketchGen(simc, mx, c.pick(6, 12), "simulated histories, collapsing stores")
	}
}

// C13 - invalid input is rejected with the documented error and changes nothing
func checkC13(c *Ctx) {
	c.Ev.Coverage.Rule = "TLC checks the action property K_Refused (a refused call leaves every sketch unchanged) over Sketch.tla with value tokens {NaN, +-Inf, +-MaxFloat64, just beyond +-MaxIndexableValue, +-MaxIndexableValue (accepted), -0, sub-minimum values}, weight tokens {negative, 0, positive}, reweight factors {negative, 0, 1, positive} and merges across two different mappings; every emitted history is replayed on both sketch variants: each refused call must return the documented sentinel error (some error where none is documented) and leave the full projection of every sketch unchanged, every accepted token must be accepted; in every reached state quantile queries for q in {NaN, just below 0, just above 1, -1, 2, +-Inf} and any q on an empty sketch must be refused. Mapping constructors are covered by the acceptance table of MappingId.tla."
	c.Ev.Coverage.CheckerCmd = "./check C13 " + c.Tier
	c.Ev.Assumptions = []string{"NaN weights, factors and constructor parameters are outside the documented contract and not generated"}
	c.Ev.Coverage.TrustedBase = []string{relTrust}
	toks := []int{10, -13, 0, -1, 2, 1000, -1000, 5000, 5001, -5001, 5002, -5002, 5003, -5003}
	second := MappingSpec{"log", 0.02}
	for _, variant := range []string{"plain", "exact"} {
		init := []SketchInit{{Variant: variant, M: 1, Pos: ex0, Neg: ex0}, {Variant: variant, M: 2, Pos: ex0, Neg: ex0}}
		g := &SketchGen{Init: init, Tokens: toks, Weights: []int{-1, 0, 4}, Factors: [][2]int{{0, 1}, {-1, 1}, {1, 1}, {2, 1}},
			Ops: []string{"AddW", "Merge", "Reweight"}, Q: 4, QDen: 8}
		if variant == "plain" || !c.quick() {
			c.runSketchMC(g, c.pick(8, 8), "TypeOK K_Content X_Stats", "K_Refused K_OnlyReceiverChanges", variant+" variant, refused inputs")
		}
		mx := &SketchMatrix{Mappings: [][]MappingSpec{{{"log", 0.01}, second}, {{"linear", 0.05}, second}, {{"cubic", 0.001}, {"cubic", 0.0011}}, {{"log", 0.5}, {"linear", 0.5}}, {{"log", 0.01}, {"linear@log", 0.01}}, {{"cubic", 0.05}, {"log@cubic", 0.05}}},
			Reals: []string{"sparse", "paged"}, Aspects: map[string]bool{"bins": true, "refuse": true}}
		tree := *g
		tree.Depth = c.pick(2, 3)
		c.runSketchGen(&tree, mx, c.pick(6, 12), "exhaustive tree of refused/accepted calls, "+variant)
		sim := *g
		sim.Ops = []string{"AddW", "Add", "Merge", "Reweight", "Clear"}
		sim.Depth, sim.Simulate, sim.Num = c.pick(8, 14), true, c.pick(800, 20000)
		c.runSketchGen(&sim, mx, c.pick(6, 12), "simulated histories with refused calls, "+variant)
	}
	runConstructorTable(c)
}

// C10 - exact summary statistics are exact across every operation
func checkC10(c *Ctx) {
	c.Ev.Coverage.Rule = "TLC checks X_Stats (exact count/min/max are functions of the absorbed multiset; empty iff nothing with positive weight was absorbed) on Sketch.tla's exact variant over histories of Add, AddWithCount (weight 0, refused values), MergeWith, Copy, Clear, Reweight, Encode/Decode and DecodeAndMergeWith, then emits histories; each is replayed on real DDSketchWithExactSummaryStatistics objects: count (==), min and max (== the concretised extreme token of the specification's bag), emptiness, sum within 16*2^-53*sum|v*w| of the exact rational sum of the bag (math/big), quantiles == plain answer clamped to [min,max]."
	c.Ev.Coverage.CheckerCmd = "./check C10 " + c.Tier
	c.Ev.Assumptions = []string{"ChangeMapping's rescaling of the statistics is checked by C17", "dyadic weights"}
	c.Ev.Coverage.TrustedBase = []string{relTrust, "math/big arithmetic for the exact sum"}
	two := plainExact(2, "exact")
	toks := []int{10, -11, 0, 5000}
	g := &SketchGen{Init: two, Tokens: toks, Weights: []int{0, 4}, Factors: [][2]int{{1, 2}, {2, 1}},
		Ops: []string{"AddW", "Merge", "Copy", "Clear", "Reweight", "EncDec", "DecodeNew"}, Q: 4, QDen: 8}
	c.runSketchMC(g, c.pick(6, 8), "TypeOK K_Content X_Stats K_Rank", "K_Refused K_Reweight K_ClearIsInit K_Copy", "exact variant, 2 sketches")
	mx := &SketchMatrix{Mappings: mappingMatrix(c.alphas(), nil), Reals: exactRealKinds,
		Aspects: map[string]bool{"bins": true, "exact": true}}
	tree := &SketchGen{Init: two, Tokens: []int{11, -12, 2, 5001}, Weights: []int{0, 6}, Factors: [][2]int{{1, 2}},
		Ops: []string{"AddW", "Merge", "Copy", "Clear", "Reweight", "EncDec", "DecodeNew"}, Q: 4, QDen: 8, Depth: c.pick(3, 4)}
	c.runSketchGen(tree, mx, c.pick(4, 8), "exhaustive tree, exact variant")
	// strong down-scaling: an error in how the sum (and its compensation term) is reweighted is magnified by 1/factor
	down := &SketchGen{Init: plainExact(1, "exact"), Tokens: []int{11, 13, -12}, Weights: []int{4096, 12288}, Factors: [][2]int{{1, 1024}, {1, 4096}, {3, 1}},
		Ops: []string{"AddW", "Reweight"}, Q: 4, QDen: 8, Depth: c.pick(5, 6)}
	mxMid := *mx
	mxMid.MidKeysOnly = true // weights of 1024 units at the largest indexable bins overflow float64 before the down-scaling
	c.runSketchGen(down, &mxMid, c.pick(4, 8), "exhaustive tree with strong down-scaling reweights")
	sim := &SketchGen{Init: plainExact(3, "exact"), Tokens: append(append([]int{}, tokBins3...), 0, -1, 2, -2, 3, -3, 5000, -5002), Weights: []int{0, 1, 2, 4, 8, 12, 400},
		Factors: [][2]int{{1, 2}, {1, 4}, {2, 1}, {3, 1}}, Ops: []string{"Add", "AddW", "Merge", "Copy", "Clear", "Reweight", "EncDec", "DecodeNew"},
		Q: 4, QDen: 8, Depth: c.pick(12, 24), Simulate: true, Num: c.pick(1500, 20000)}
	c.runSketchGen(sim, mx, c.pick(8, 16), "simulated histories, exact variant")
	// exact statistics do not depend on the store: collapsing stores keep exact min/max/count/sum
	simc := &SketchGen{Init: []SketchInit{{"exact", 1, mk("low", 2), mk("high", 2)}, {"exact", 1, ex0, mk("low", 1)}}, Tokens: append(append([]int{}, tokBins3...), 0, 2),
		Weights: []int{0, 2, 4, 8}, Factors: [][2]int{{1, 2}, {2, 1}}, Ops: []string{"Add", "AddW", "Merge", "Copy", "Clear", "Reweight", "EncDec", "DecodeNew"},
		Q: 4, QDen: 8, Depth: c.pick(10, 20), Simulate: true, Num: c.pick(600, 8000)}
	c.runSketchGen(simc, mx, c.pick(6, 12), "simulated histories, exact variant on collapsing stores")
	// unit / mapping changes: statistics rescaled at the conversion, and afterwards both sketches evolve independently
	cmInit := []SketchInit{{"exact", 1, ex0, ex0}, {"exact", 1, ex0, ex0}, {"exact", 2, ex0, ex0}}
	mxc := &SketchMatrix{Mappings: [][]MappingSpec{{{"log", 0.01}, {"cubic", 0.02}}, {{"linear", 0.05}, {"log", 0.01}}, {{"cubic", 0.01}, {"cubic", 0.03}}}, Reals: exactRealKinds,
		Modes: []string{"every"}, Aspects: map[string]bool{"bins": true, "exact": true, "cm-stats": true, "pure": true}, MidKeysOnly: true}
	cmTree := &SketchGen{Init: cmInit[:2], Tokens: []int{11, -12}, Weights: []int{6}, Ops: []string{"AddW", "ChangeMap", "Clear"}, Q: 4, QDen: 8, Depth: 3}
	c.runSketchGen(cmTree, mxc, c.pick(4, 8), "exhaustive tree with unit/mapping changes")
	cmSim := &SketchGen{Init: cmInit, Tokens: append(append([]int{}, tokBins3...), 0, 2), Weights: []int{0, 2, 4, 8}, Factors: [][2]int{{1, 2}, {2, 1}},
		Ops: []string{"Add", "AddW", "Merge", "Copy", "Clear", "Reweight", "ChangeMap", "EncDec"}, Q: 4, QDen: 8, Depth: c.pick(10, 20), Simulate: true, Num: c.pick(800, 10000)}
	c.runSketchGen(cmSim, mxc, c.pick(6, 12), "simulated histories with unit/mapping changes")
}

var allSketchOps = []string{"Add", "AddW", "AddN", "Merge", "Copy", "Clear", "Reweight", "EncDec", "DecodeNew", "Proto", "Read"}

func mixedInits(variant string) [][]SketchInit {
	return [][]SketchInit{
		sketches(variant, ex0, ex0, ex0, ex0, ex0, ex0),
		sketches(variant, mk("low", 2), mk("low", 3), ex0, ex0, mk("high", 2), mk("high", 2)),
	}
}

// C14 - queries are pure and copies are independent
func checkC14(c *Ctx) {
	c.Ev.Coverage.Rule = "TLC checks K_ReadOnly, K_OnlyReceiverChanges and K_Copy on Sketch.tla (3 slots, all operations interleaved with Read and Copy), then emits histories; each is executed twice on real sketches: (A) with a full snapshot of every slot (all queries, iteration, protobuf in both forms, binary encoding, copy) taken before and after every event, (B) with the mutations only. Verdict, real code vs real code bit for bit: every slot the specification does not name as receiver keeps its snapshot across the event (reads, merge arguments, copy sources), a fresh copy's snapshot equals its original's, and runs A and B end in identical snapshots (so a read that reorganises hidden state wrongly surfaces later). Store level: Store.tla Read events in C04/C05."
	c.Ev.Coverage.CheckerCmd = "./check C14 " + c.Tier
	c.Ev.Assumptions = []string{"snapshot = count, zero weight, emptiness, both stores' bins/total/min/max, min/max value, q=a/8 answers, exact statistics (plain GetSum excluded: sparse iteration order makes its rounding order-dependent)"}
	g := &SketchGen{Init: plainExact(3, "plain"), Tokens: []int{10, -11, 0}, Weights: []int{2}, Factors: [][2]int{{2, 1}}, Ops: []string{"Add", "Merge", "Copy", "Clear", "Read", "Reweight"}, Q: 4, QDen: 8}
	c.runSketchMC(g, c.pick(8, 8), "TypeOK K_Content", "K_ReadOnly K_OnlyReceiverChanges K_Copy K_ClearIsInit", "3 sketches, reads and copies")
	mx := &SketchMatrix{Mappings: mappingMatrix([]float64{0.01, 0.2}, nil), Reals: exactRealKinds, Modes: []string{"every"}, Aspects: map[string]bool{"pure": true}}
	tree := &SketchGen{Init: plainExact(2, "plain"), Tokens: []int{10, 13, -11}, Weights: []int{132}, Factors: [][2]int{{1, 2}},
		Ops: []string{"Add", "AddW", "Merge", "Copy", "Clear", "Reweight", "EncDec", "Proto", "Read"}, Q: 4, QDen: 8, Depth: c.pick(3, 4)}
	c.runSketchGen(tree, mx, c.pick(6, 4), "exhaustive tree with reads and copies")
	// deep narrow tree: clear / copy / re-fill sequences on both sides of a copy (memory reuse across Clear and Copy)
	mxn := &SketchMatrix{Mappings: [][]MappingSpec{{{"log", 0.01}}, {{"cubic", 0.05}}}, Reals: exactRealKinds, Modes: []string{"every"}, Aspects: map[string]bool{"pure": true}}
	deep := &SketchGen{Init: plainExact(2, "plain"), Tokens: []int{10, 13}, Weights: []int{132}, Ops: []string{"AddW", "Clear", "Copy", "Read"}, Q: 4, QDen: 8, Depth: c.pick(5, 6)}
	c.runSketchGen(deep, mxn, c.pick(3, 2), "deep narrow tree: add/clear/copy/read")
	for _, variant := range []string{"plain", "exact"} {
		for _, init := range mixedInits(variant) {
			ops := allSketchOps
			if variant == "exact" {
				ops = []string{"Add", "AddW", "AddN", "Merge", "Copy", "Clear", "Reweight", "EncDec", "DecodeNew", "Read"}
			}
			sim := &SketchGen{Init: init, Tokens: append(append([]int{}, tokBins3...), 0, 2, -3), Weights: []int{1, 4, 8, 132, 280},
				Factors: [][2]int{{1, 2}, {2, 1}, {3, 1}}, Ops: ops, Q: 4, QDen: 8, Depth: c.pick(16, 30), Simulate: true, Num: c.pick(500, 3000)}
			c.runSketchGen(sim, mx, c.pick(6, 12), "simulated histories with reads and copies, "+variant)
		}
	}
	// derived sketches: the result of ChangeMapping (a new sketch in another slot, both variants, scale 1 and others)
	// and its source are independent afterwards, like a copy and its original
	cmInit := []SketchInit{{"exact", 1, ex0, ex0}, {"exact", 1, ex0, ex0}, {"plain", 2, ex0, ex0}}
	mxc := &SketchMatrix{Mappings: [][]MappingSpec{{{"log", 0.01}, {"cubic", 0.02}}, {{"linear", 0.05}, {"log", 0.01}}}, Reals: exactRealKinds,
		Modes: []string{"every"}, Aspects: map[string]bool{"pure": true}, MidKeysOnly: true}
	cmTree := &SketchGen{Init: cmInit[:2], Tokens: []int{11, -12}, Weights: []int{6}, Ops: []string{"AddW", "ChangeMap", "Clear", "Read"}, Q: 4, QDen: 8, Depth: c.pick(3, 4)}
	c.runSketchGen(cmTree, mxc, c.pick(4, 8), "exhaustive tree with unit/mapping changes and reads")
	cmSim := &SketchGen{Init: cmInit, Tokens: append(append([]int{}, tokBins3...), 0, 2), Weights: []int{0, 2, 4, 8}, Factors: [][2]int{{1, 2}, {2, 1}},
		Ops: []string{"Add", "AddW", "Merge", "Copy", "Clear", "Reweight", "ChangeMap", "Read"}, Q: 4, QDen: 8, Depth: c.pick(10, 20), Simulate: true, Num: c.pick(500, 3000)}
	c.runSketchGen(cmSim, mxc, c.pick(6, 12), "simulated histories with unit/mapping changes and reads")
}

// C15 - a cleared sketch or store is indistinguishable from a new one
func checkC15(c *Ctx) {
	c.Ev.Coverage.Rule = "TLC checks K_ClearIsInit / S_ClearIsInit (the state after Clear is the initial state) on Sketch.tla and Store.tla, then emits histories with Clear anywhere (repeated clear/reuse cycles, cleared objects as decode targets and merge operands); each is executed twice on real objects: (A) as is, (B) with every Clear replaced by the construction of a brand-new object of the same kind. Verdict, real vs real bit for bit after every step: every slot answers identically in A and B (bins, totals, min/max, quantiles, exact statistics). Store level: the same with real stores of all five kinds incl. collapsing (N in 1..4) under index embeddings."
	c.Ev.Coverage.CheckerCmd = "./check C15 " + c.Tier
	c.Ev.Assumptions = []string{"dyadic weights"}
	g := &SketchGen{Init: plainExact(2, "exact"), Tokens: []int{10, -11, 0}, Weights: []int{2}, Factors: [][2]int{{2, 1}}, Ops: []string{"Add", "Merge", "Clear", "EncDec", "Reweight"}, Q: 4, QDen: 8}
	c.runSketchMC(g, c.pick(12, 16), "TypeOK K_Content X_Stats", "K_ClearIsInit K_OnlyReceiverChanges", "2 exact-variant sketches with clear")
	mx := &SketchMatrix{Mappings: mappingMatrix([]float64{0.01, 0.2}, nil), Reals: exactRealKinds, Modes: []string{"every"}, Aspects: map[string]bool{"clear": true}}
	tree := &SketchGen{Init: plainExact(2, "plain"), Tokens: []int{10, 15, -11, 0}, Weights: []int{132}, Factors: [][2]int{{1, 2}},
		Ops: []string{"Add", "AddW", "Merge", "Clear", "EncDec", "DecodeNew"}, Q: 4, QDen: 8, Depth: c.pick(3, 4)}
	c.runSketchGen(tree, mx, c.pick(6, 8), "exhaustive tree with clear")
	for _, variant := range []string{"plain", "exact"} {
		for _, init := range mixedInits(variant) {
			sim := &SketchGen{Init: init, Tokens: append(append([]int{}, tokBins3...), 0, 2, 16, 17, -16, -17), Weights: []int{1, 4, 8, 132, 280},
				Factors: [][2]int{{1, 2}, {2, 1}}, Ops: []string{"Add", "AddW", "AddN", "Merge", "Copy", "Clear", "Reweight", "EncDec", "DecodeNew"},
				Q: 4, QDen: 8, Depth: c.pick(16, 30), Simulate: true, Num: c.pick(500, 3000)}
			c.runSketchGen(sim, mx, c.pick(6, 12), "simulated clear/reuse cycles, "+variant)
		}
	}
	runStoreClearTwin(c)
}

// C16 - reweighting equals having added everything with scaled weights
func checkC16(c *Ctx) {
	c.Ev.Coverage.Rule = "TLC checks K_Reweight / S_Reweight (every bin, the zero bucket and the count scale by the factor, exact min/max unchanged, nothing else changes) on Sketch.tla and Store.tla, with Reweight enabled only when all weights stay integral quanta, then emits histories; on real sketches the snapshot taken just before each Reweight(f) is compared with the one just after: every bin of both stores, the zero weight and the count equal f times the previous value exactly, exact count too, exact sum within rounding, exact min/max unchanged; at the end the sketch must equal a fresh sketch fed the specification's (scaled) bag. All store kinds incl. collapsing and a paginated store holding both buffered and paged indexes (unit adds, weighted adds, 33..70 repeated unit adds)."
	c.Ev.Coverage.CheckerCmd = "./check C16 " + c.Tier
	c.Ev.Assumptions = []string{"factors 1/4,1/2,2,3 and 1; weights dyadic so the scaled values are exact"}
	g := &SketchGen{Init: plainExact(1, "exact"), Tokens: []int{10, -11, 0}, Weights: []int{2, 4}, Factors: [][2]int{{1, 2}, {2, 1}, {3, 1}, {1, 1}}, Ops: []string{"AddW", "Reweight"}, Q: 4, QDen: 8}
	c.runSketchMC(g, c.pick(12, 16), "TypeOK K_Content X_Stats", "K_Reweight K_Refused", "1 exact-variant sketch with reweight")
	mx := &SketchMatrix{Mappings: mappingMatrix([]float64{0.01, 0.2}, nil), Reals: exactRealKinds, Modes: []string{"every"}, Aspects: map[string]bool{"reweight": true, "twin-merge": true}}
	tree := &SketchGen{Init: plainExact(1, "exact"), Tokens: []int{10, 11, -11, 0}, Weights: []int{4, 6, 132}, Factors: [][2]int{{1, 2}, {3, 1}, {1, 1}},
		Ops: []string{"AddW", "Reweight"}, Q: 4, QDen: 8, Depth: c.pick(4, 5)}
	c.runSketchGen(tree, mx, c.pick(6, 12), "exhaustive tree with reweight")
	for _, variant := range []string{"plain", "exact"} {
		for _, init := range mixedInits(variant) {
			sim := &SketchGen{Init: init, Tokens: append(append([]int{}, tokBins3...), 0, 2), Weights: []int{1, 4, 4, 8, 132, 280},
				Factors: [][2]int{{1, 4}, {1, 2}, {2, 1}, {3, 1}, {1, 1}}, Ops: []string{"Add", "AddW", "AddN", "Reweight", "Merge", "Copy"},
				Q: 4, QDen: 8, Depth: c.pick(12, 24), Simulate: true, Num: c.pick(500, 3000)}
			mxs := *mx
			mxs.Aspects = map[string]bool{"reweight": true}
			c.runSketchGen(sim, &mxs, c.pick(6, 12), "simulated histories with reweight, "+variant)
		}
	}
	runStoreReweight(c)
}
