package main

// Direction B at sketch level (Trace_Sketch.tla): production-size executions of real sketches,
// quantile queries at every k/(n-1) and its float neighbours, validated by TLC.

import (
	"bufio"
	"encoding/json"
	"fmt"
	"math"
	"math/big"
	"math/rand"
	"os"
	"path/filepath"
	"sort"
	"time"

	"github.com/DataDog/sketches-go/ddsketch"
)

type skTraceLine struct {
	Op    string `json:"op"`
	S     int    `json:"s"`
	T     int    `json:"t"`
	V     int    `json:"v"`
	W     int    `json:"w"`
	Num   int    `json:"num"`
	Den   int    `json:"den"`
	Cnt   int64  `json:"cnt"`
	Count int64  `json:"count"`
	Fl    int64  `json:"fl"`
	Ce    int64  `json:"ce"`
	Near  []int  `json:"near"`
	Q     string `json:"q,omitempty"`
	Info  string `json:"info,omitempty"`
}

const skTraceQ = 4

const traceSketchCfgFmt = `INIT TraceInit
NEXT TraceNext
CONSTANTS
  Slots <- TSlots
  Q = %d
  QDen = 8
  Tokens = {}
  Weights = {}
  Factors = {}
  Ops = {}
  InitSketches = 0
  MapToks = {}
  ScaleToks = {}
INVARIANTS QueryOK CountOK
CHECK_DEADLOCK FALSE
`

// recordSketchTrace runs one history on real sketches; returns a problem visible without the specification.
func recordSketchTrace(w *bufio.Writer, rng *rand.Rand, weighted bool, nValues int) (string, int) {
	ms := []MappingSpec{{"log", 0.01}, {"linear", 0.02}, {"cubic", 0.005}, {"log", 1e-3}, {"cubic", 0.2}, {"linear", 0.5}}[rng.Intn(6)]
	conc := concretizerFor(ms)
	maxKey := []int{3, 20, 60, 150}[rng.Intn(4)]
	kes := keyEmbeddingsFor(conc, maxKey, false, true)
	if len(kes) == 0 {
		return "", 0
	}
	ke := kes[rng.Intn(len(kes))]
	reals := []string{"dense", "sparse", "paged"}
	mk := func() *ddsketch.DDSketch {
		return ddsketch.NewDDSketch(ms.build(), newRealStore(ModelKind{"exact", 0}, reals[rng.Intn(3)]), newRealStore(ModelKind{"exact", 0}, reals[rng.Intn(3)]))
	}
	sks := []*ddsketch.DDSketch{mk(), mk(), mk()}
	inputs := []map[int]bool{{}, {}, {}} // tokens ever offered to each sketch (incl. through merges)
	lines := 0
	emit := func(l *skTraceLine) {
		b, _ := json.Marshal(l)
		w.Write(b)
		w.WriteByte('\n')
		lines++
	}
	emit(&skTraceLine{Op: "reset", Near: []int{}, Info: fmt.Sprintf("mapping %v keys %+v maxKey %d weighted %v", ms, ke, maxKey, weighted)})
	cntQ := func(s *ddsketch.DDSketch) (int64, string) {
		c := s.GetCount() * skTraceQ
		if c != math.Trunc(c) {
			return 0, fmt.Sprintf("GetCount %v is not a multiple of 1/%d although only such weights were added", s.GetCount(), skTraceQ)
		}
		return int64(c), ""
	}
	// key distribution
	dist := rng.Intn(7)
	genTok := func() int {
		var k int
		switch dist {
		case 5: // mass at the top, thin tail below (isolated low indexes under a densely filled page)
			k = maxKey - int(rng.ExpFloat64()*float64(maxKey)/5)
			if k < 0 {
				k = 0
			}
		case 6: // nearly everything at one high index, a few values anywhere below
			k = maxKey
			if rng.Intn(12) == 0 {
				k = rng.Intn(maxKey + 1)
			}
		case 0:
			k = rng.Intn(maxKey + 1)
		case 1:
			k = int(math.Abs(rng.NormFloat64()) * float64(maxKey) / 3)
		case 2:
			k = int(rng.ExpFloat64() * float64(maxKey) / 5)
		case 3:
			k = maxKey / 2
		default:
			k = rng.Intn(3) * maxKey / 2
		}
		if k > maxKey {
			k = maxKey
		}
		v := 10 + 2*k + rng.Intn(2)
		switch rng.Intn(10) {
		case 0, 1, 2:
			v = -v
		case 3:
			v = []int{0, -1, 2, -2, 3, -3}[rng.Intn(6)]
		}
		return v
	}
	queries := func(si int) string {
		s := sks[si]
		cnt, p := cntQ(s)
		if p != "" {
			return p
		}
		if cnt == 0 {
			return ""
		}
		n := cnt / skTraceQ
		var qs []float64
		if !weighted && n > 1 && n <= 3000 {
			step := int64(1)
			if n > 120 {
				step = n / 60
			}
			for k := int64(0); k <= n-1; k += step {
				q := float64(k) / float64(n-1)
				qs = append(qs, q)
				if q > 0 {
					qs = append(qs, math.Nextafter(q, 0))
				}
				if q < 1 {
					qs = append(qs, math.Nextafter(q, 1))
				}
			}
		}
		// ranks at the boundaries between bins (the last rank of one bin, the first of the next): where a store that keeps
		// its content in several places (buffer and pages, shifted arrays) hands over from one to the other. The bins are
		// read from the sketch only to CHOOSE the queries; the verdict comes from the specification's bag.
		if tw := s.GetCount(); tw > 1 {
			type vc struct{ v, c float64 }
			var bins []vc
			s.ForEach(func(v, c float64) bool { bins = append(bins, vc{v, c}); return false })
			sort.Slice(bins, func(a, b int) bool { return bins[a].v < bins[b].v })
			keep := 1.0
			if len(bins) > 40 {
				keep = 40 / float64(len(bins))
			}
			cum := 0.0
			for _, b := range bins {
				cum += b.c
				if rng.Float64() > keep {
					continue
				}
				for _, r := range []float64{cum - 1, cum} {
					if r >= 0 && r <= tw-1 {
						q := r / (tw - 1)
						qs = append(qs, q)
						if q > 0 {
							qs = append(qs, math.Nextafter(q, 0))
						}
						if q < 1 {
							qs = append(qs, math.Nextafter(q, 1))
						}
					}
				}
			}
		}
		for k := 0; k < 30; k++ {
			qs = append(qs, rng.Float64())
		}
		qs = append(qs, 0, 1, 0.5, 0.99, 0.999, math.SmallestNonzeroFloat64, math.Nextafter(1, 0))
		alpha := conc.m.RelativeAccuracy()
		for _, q := range qs {
			y, err := s.GetValueAtQuantile(q)
			if err != nil {
				return fmt.Sprintf("GetValueAtQuantile(%v) on a non-empty sketch returned %v", q, err)
			}
			// exact rank q*(W-1) in quanta, floor and ceil (math/big: q is the float actually passed)
			r := new(big.Rat).SetFloat64(q)
			r.Mul(r, big.NewRat(cnt-skTraceQ, 1))
			fl := new(big.Int).Div(r.Num(), r.Denom()).Int64() // floor (Div is Euclidean; denominators are positive)
			ce := fl
			if !r.IsInt() {
				ce = fl + 1
			}
			if fl < 0 { // total weight below one: the property's rank is negative; the lowest rank is 0
				fl, ce = 0, 0
			}
			if !weighted {
				// unit weights: ranks in whole units
				fu := new(big.Rat).SetFloat64(q)
				fu.Mul(fu, big.NewRat(n-1, 1))
				f := new(big.Int).Div(fu.Num(), fu.Denom()).Int64()
				c := f
				if !fu.IsInt() {
					c = f + 1
				}
				fl, ce = f*skTraceQ, c*skTraceQ
			}
			near := []int{}
			for v := range inputs[si] {
				if isZeroClass(v) {
					if y == 0 {
						near = append(near, v)
					}
					continue
				}
				x, ok := tokenValue(conc, ke, v)
				if ok && within(y, x, alpha) {
					near = append(near, v)
				}
			}
			emit(&skTraceLine{Op: "Q", S: si + 1, Count: cnt, Fl: fl, Ce: ce, Near: near, Q: fmt.Sprintf("%.17g", q)})
		}
		return ""
	}
	ops := nValues
	for i := 0; i < ops; i++ {
		si := rng.Intn(3)
		r := rng.Intn(100)
		switch {
		case r < 90:
			v := genTok()
			x, ok := tokenValue(conc, ke, v)
			if !ok {
				continue
			}
			wq := skTraceQ
			if weighted {
				wq = []int{1, 2, 3, 4, 4, 8, 12, 40}[rng.Intn(8)]
			}
			var err error
			if wq == skTraceQ && rng.Intn(2) == 0 {
				err = sks[si].Add(x)
			} else {
				err = sks[si].AddWithCount(x, float64(wq)/skTraceQ)
			}
			if err != nil {
				return fmt.Sprintf("Add of a trackable value %v refused: %v", x, err), lines
			}
			inputs[si][v] = true
			c, p := cntQ(sks[si])
			if p != "" {
				return p, lines
			}
			emit(&skTraceLine{Op: "AddW", S: si + 1, V: v, W: wq, Cnt: c, Near: []int{}})
		case r < 94:
			ti := (si + 1 + rng.Intn(2)) % 3
			if sks[ti].GetCount()+sks[si].GetCount() > 1<<22 {
				// repeated merges double the totals: keep them far below TLC's 32-bit integers
				sks[ti].Clear()
				inputs[ti] = map[int]bool{}
				emit(&skTraceLine{Op: "Clear", S: ti + 1, Near: []int{}})
				continue
			}
			if err := sks[ti].MergeWith(sks[si]); err != nil {
				return "MergeWith of sketches sharing a mapping refused: " + err.Error(), lines
			}
			for v := range inputs[si] {
				inputs[ti][v] = true
			}
			c, p := cntQ(sks[ti])
			if p != "" {
				return p, lines
			}
			emit(&skTraceLine{Op: "Merge", S: si + 1, T: ti + 1, Cnt: c, Near: []int{}})
		case r < 95:
			sks[si].Clear()
			inputs[si] = map[int]bool{}
			emit(&skTraceLine{Op: "Clear", S: si + 1, Near: []int{}})
		case r == 97:
			// merge through the wire: Encode (mapping embedded or omitted) + DecodeAndMergeWith
			ti := (si + 1 + rng.Intn(2)) % 3
			if sks[ti].GetCount()+sks[si].GetCount() > 1<<22 {
				continue
			}
			omit := rng.Intn(2)
			var b []byte
			sks[si].Encode(&b, omit == 1)
			if err := sks[ti].DecodeAndMergeWith(b); err != nil {
				return "DecodeAndMergeWith of a complete encoding with the same mapping refused: " + err.Error(), lines
			}
			for v := range inputs[si] {
				inputs[ti][v] = true
			}
			c, p := cntQ(sks[ti])
			if p != "" {
				return p, lines
			}
			emit(&skTraceLine{Op: "EncDec", S: si + 1, T: ti + 1, W: omit, Cnt: c, Near: []int{}})
		case r == 98:
			ti := (si + 1 + rng.Intn(2)) % 3
			sks[ti] = sks[si].Copy()
			inputs[ti] = map[int]bool{}
			for v := range inputs[si] {
				inputs[ti][v] = true
			}
			c, p := cntQ(sks[ti])
			if p != "" {
				return p, lines
			}
			emit(&skTraceLine{Op: "Copy", S: si + 1, T: ti + 1, Cnt: c, Near: []int{}})
		case r < 97 && weighted:
			f := [][2]int{{2, 1}, {3, 1}}[rng.Intn(2)]
			if sks[si].GetCount() > 1<<20 {
				continue
			}
			if err := sks[si].Reweight(float64(f[0]) / float64(f[1])); err != nil {
				return "Reweight refused", lines
			}
			c, p := cntQ(sks[si])
			if p != "" {
				return p, lines
			}
			emit(&skTraceLine{Op: "Reweight", S: si + 1, Num: f[0], Den: f[1], Cnt: c, Near: []int{}})
		default:
			if rng.Intn(4) == 0 {
				if p := queries(si); p != "" {
					return p, lines
				}
			}
		}
	}
	for si := range sks {
		if p := queries(si); p != "" {
			return p, lines
		}
	}
	return "", lines
}

func (c *Ctx) runSketchTraces(nTraces int, weighted bool, nValues int, purpose string) {
	if !c.phase("sketch traces " + purpose) {
		return
	}
	rng := rand.New(rand.NewSource(c.Seed*6151 + int64(len(purpose))))
	grand := 0
	for done := 0; done < nTraces; {
		n, lines, ok := c.runSketchTraceChunk(nTraces-done, weighted, nValues, purpose, rng)
		done += n
		grand += lines
		if !ok {
			break
		}
	}
	fmt.Printf("  [sketch traces %s] %d traces, %d recorded events (adds, merges, quantile queries) validated by TLC %.0fs\n", purpose, nTraces, grand, time.Since(c.phaseStart).Seconds())
}

// safeRecordSketchTrace turns a panic of the library under the driver into a reported problem
func safeRecordSketchTrace(w *bufio.Writer, rng *rand.Rand, weighted bool, nValues int) (p string, n int) {
	defer func() {
		if r := recover(); r != nil {
			p = fmt.Sprintf("panic: %v", r)
		}
	}()
	return recordSketchTrace(w, rng, weighted, nValues)
}

// runSketchTraceChunk records up to maxTraces executions (until the file holds maxTraceLines lines) and validates the
// file; it returns the number of traces recorded, the lines validated and false if a violation was reported
func (c *Ctx) runSketchTraceChunk(maxTraces int, weighted bool, nValues int, purpose string, rng *rand.Rand) (int, int, bool) {
	path := filepath.Join(c.Scratch, fmt.Sprintf("sketch-trace-%d.ndjson", time.Now().UnixNano()))
	f, _ := os.Create(path)
	defer os.Remove(path)
	w := bufio.NewWriterSize(f, 1<<20)
	total := 0
	nTraces := 0
	for nTraces < maxTraces && total < maxTraceLines {
		p, n := safeRecordSketchTrace(w, rng, weighted, nValues)
		total += n
		nTraces++
		if p != "" {
			w.Flush()
			f.Close()
			c.report(&Violation{Pipeline: "sketchtrace", Case: map[string]interface{}{"seed": c.Seed, "purpose": purpose}, What: "while recording a trace on real sketches: " + p,
				Tags: map[string]string{"outcome": "driver"}})
			return nTraces, total, false
		}
	}
	w.Flush()
	f.Close()
	cfg := fmt.Sprintf(traceSketchCfgFmt, skTraceQ)
	res := c.runTLC(TLCOpts{Module: "Trace_Sketch", Cfg: cfg, Purpose: "sketch trace validation " + purpose, Workers: 1, Env: []string{"VERIF_TRACE=" + path}, Timeout: 60 * time.Minute,
		Constants: fmt.Sprintf("%d traces, %d operations each, weighted=%v", nTraces, nValues, weighted)})
	if res.Violated != "" {
		lineNo := res.LastL - 1
		keep := filepath.Join(verifRoot, "replays", fmt.Sprintf("%s-sketch-trace-%d.ndjson", c.Prop, c.Seed))
		os.MkdirAll(filepath.Dir(keep), 0o755)
		copyFile(path, keep)
		c.report(&Violation{Pipeline: "sketchtrace", Case: map[string]interface{}{"trace_file": keep, "line": lineNo, "seed": c.Seed}, Step: lineNo,
			What:   fmt.Sprintf("recorded execution of real sketches is not allowed by Sketch.tla: %s fails at trace line %d (a quantile answer that is not an alpha-accurate estimate of any value the property allows at that rank, or a wrong count)", res.Violated, lineNo),
			Actual: json.RawMessage(nthLine(path, lineNo)), Tags: map[string]string{"outcome": "trace-rejected", "invariant": res.Violated}})
	} else if res.Distinct != int64(total)+1 {
		infraFail("Trace_Sketch consumed %d of %d lines\n%s", res.Distinct-1, total, res.Output)
	}
	c.mu.Lock()
	c.Ev.Coverage.Traces += int64(nTraces)
	c.Ev.Coverage.TraceEvents += int64(total)
	c.Ev.Coverage.Evaluations += int64(total)
	c.mu.Unlock()
	return nTraces, total, res.Violated == ""
}
