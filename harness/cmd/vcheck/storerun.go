package main

import (
	"encoding/json"
	"fmt"
	"sync"
	"sync/atomic"
	"time"
)

// runStoreGen lets TLC emit behaviours of Gen_Store for g and replays each of
// them on real stores under `per` configurations (rotating deterministically
// through the whole configuration matrix).
func (c *Ctx) runStoreGen(g *StoreGen, per int, purpose string) {
	if !c.phase(purpose) {
		return
	}
	cfgs := storeConfigsFor(g, !c.quick())
	if per > len(cfgs) {
		per = len(cfgs)
	}
	name, text, cfg := g.module()
	type job struct {
		n   int64
		beh []StoreStep
	}
	jobs := make(chan job, 256)
	var wg sync.WaitGroup
	var steps, replays int64
	for k := 0; k < c.Workers; k++ {
		wg.Add(1)
		go func() {
			defer wg.Done()
			for j := range jobs {
				for r := 0; r < per; r++ {
					ci := int((j.n*int64(per)+int64(r))*7919+c.Seed*104729) % len(cfgs)
					if ci < 0 {
						ci += len(cfgs)
					}
					sc := cfgs[ci]
					if mm := replayStore(j.beh, &sc); mm != nil {
						c.report(&Violation{Pipeline: "store", Config: sc, Case: j.beh, Step: mm.Step, What: mm.What,
							Expected: mm.Pred, Actual: mm.Actual, Tags: mm.Tags})
					}
					atomic.AddInt64(&replays, 1)
					if sc.Mode == "every" {
						atomic.AddInt64(&steps, int64(len(j.beh)))
					} else {
						atomic.AddInt64(&steps, 1)
					}
				}
				// distinct (abstract state, event) pairs exercised
				prev := "init"
				for i := range j.beh {
					eb, _ := json.Marshal(j.beh[i].Ev)
					c.addDistinct(prev + "|" + string(eb))
					c.addExtraCount("replayed op:"+j.beh[i].Ev.Op, 1)
					pb, _ := json.Marshal(j.beh[i].Pred)
					prev = string(pb)
				}
			}
		}()
	}
	var n int64
	var parseErr error
	o := TLCOpts{Module: name, Cfg: cfg, Purpose: purpose, Extra: map[string]string{name + ".tla": text},
		Simulate: g.Simulate, Num: g.Num, Depth: g.Depth + 1, Seed: c.Seed, Constants: g.describe(), Timeout: 120 * time.Minute}
	if g.Simulate {
		o.Workers = 4
		o.Num = (g.Num + 3) / 4
	}
	o.OnBeh = func(line []byte) {
		var beh []StoreStep
		if err := json.Unmarshal(line, &beh); err != nil {
			if parseErr == nil {
				parseErr = fmt.Errorf("%v in %.300s", err, line)
			}
			return
		}
		if n < 3 {
			c.addSample(map[string]interface{}{"pipeline": "Gen_Store behaviour", "events": eventsOnly(beh)})
		}
		jobs <- job{n, beh}
		n++
	}
	res := c.runTLC(o)
	close(jobs)
	wg.Wait()
	if parseErr != nil {
		infraFail("cannot parse behaviour: %v", parseErr)
	}
	if res.Violated != "" && res.Violated != "Emit" {
		infraFail("Gen_Store violated %s:\n%s", res.Violated, res.ErrorText)
	}
	if n == 0 {
		infraFail("TLC emitted no behaviour for %s (%s)\n%s", name, purpose, res.Output)
	}
	c.mu.Lock()
	c.Ev.Coverage.Traces += replays
	c.Ev.Coverage.StepsCompared += steps
	c.Ev.Coverage.Evaluations += replays
	c.Ev.Coverage.Configs += int64(len(cfgs))
	c.mu.Unlock()
	fmt.Printf("  [%s] %d behaviours x %d of %d configurations replayed (%d step comparisons) %.0fs\n", purpose, n, per, len(cfgs), steps, time.Since(c.phaseStart).Seconds())
}

func eventsOnly(beh []StoreStep) []StoreEvent {
	out := make([]StoreEvent, len(beh))
	for i := range beh {
		out[i] = beh[i].Ev
	}
	return out
}

// runStoreMC model-checks Store.tla for one pair of slot kinds.
func (c *Ctx) runStoreMC(kinds []ModelKind, ops string, keys string, maxTotal int, purpose string) {
	if !c.phase("MC " + purpose) {
		return
	}
	var ks string
	for i, k := range kinds {
		if i > 0 {
			ks += " @@ "
		}
		ks += fmt.Sprintf("(%d :> NewStore(%q, %d))", i+1, k.Kind, k.N)
	}
	text := fmt.Sprintf("---- MODULE RunMCStore ----\nEXTENDS MC_Store\nRSlots == 1..%d\nRInit == %s\n====\n", len(kinds), ks)
	cfg := fmt.Sprintf(`SPECIFICATION Spec
CONSTANTS
  Slots <- RSlots
  Keys <- %s
  Q <- MCQ
  Weights <- MCWeights
  Repeats <- MCRepeats
  Factors <- MCFactors
  Ops <- %s
  InitStores <- RInit
  MaxTotal = %d
CONSTRAINT Bounded
VIEW View
INVARIANTS TypeOK S_Fold S_Conserve S_Span S_CollapsedMeaning S_ExactWhenNarrow S_KeyAtRank S_MergeOrderIrrelevant S_FastMergeIsGeneric
PROPERTIES S_OnlyReceiverChanges S_ReadOnly S_ClearIsInit S_Reweight S_Copy S_ZeroWeight
CHECK_DEADLOCK FALSE
`, keys, ops, maxTotal)
	res := c.runMC(TLCOpts{Module: "RunMCStore", Cfg: cfg, Purpose: purpose, Extra: map[string]string{"RunMCStore.tla": text},
		Constants: fmt.Sprintf("kinds=%v keys=%s ops=%s maxTotal=%d quanta (Q=2)", kinds, keys, ops, maxTotal)})
	fmt.Printf("  [MC %s] %d distinct states, %d generated: all invariants and action properties hold %.0fs\n", purpose, res.Distinct, res.Generated, time.Since(c.phaseStart).Seconds())
}

// runDenseImplMC model-checks the array-level model DenseImpl.tla (refinement of the abstract stores,
// structural invariants, no out-of-bounds access) for one pair of store kinds with scaled-down constants.
func (c *Ctx) runDenseImplMC(kinds string, overhead int, purpose string) {
	c.runDenseImplMCSized(kinds, overhead, purpose, !c.quick())
}

func (c *Ctx) runDenseImplMCSized(kinds string, overhead int, purpose string, large bool) {
	if !c.phase("MC DenseImpl " + purpose) {
		return
	}
	keys, maxTotal := "DKeysSmall", 3
	if large {
		keys, maxTotal = "DKeys", 4
	}
	cfg := fmt.Sprintf(`SPECIFICATION Spec
CONSTANTS
  Overhead = %d
  FixF3 = TRUE
  Slots = {1, 2}
  Keys <- %s
  Weights = {1}
  InitKinds <- %s
  MaxTotal = %d
CONSTRAINT BoundedC
INVARIANTS I_NoPanic I_Refines I_Structure I_KeyAtRank
CHECK_DEADLOCK FALSE
`, overhead, keys, kinds, maxTotal)
	res := c.runMC(TLCOpts{Module: "DenseImpl", Cfg: cfg, Purpose: "DenseImpl " + purpose, Constants: fmt.Sprintf("kinds=%s overhead=%d keys=%s maxTotal=%d", kinds, overhead, keys, maxTotal)})
	fmt.Printf("  [MC DenseImpl %s] %d distinct states: I_NoPanic I_Refines I_Structure I_KeyAtRank hold %.0fs\n", purpose, res.Distinct, time.Since(c.phaseStart).Seconds())
}

// runPagedImplMC model-checks the implementation-shaped model of the paginated store (PagedImpl.tla):
// refinement of the exact map under every capacity growth and interleaving of reads/compactions.
func (c *Ctx) runPagedImplMC() {
	if !c.phase("MC PagedImpl") {
		return
	}
	type conf struct {
		slots, keys string
		maxTotal    int
	}
	confs := []conf{{"{1}", "PKeys3", c.pick(10, 12)}, {"{1, 2}", "PKeys3", 2}}
	for _, cf := range confs {
		cfg := fmt.Sprintf(`SPECIFICATION Spec
CONSTANTS
  PageLen = 2
  PageGrow = 2
  Unit = 2
  Slots = %s
  Keys <- %s
  WeightsW = {1, 2}
  MaxTotal = %d
CONSTRAINT BoundedP
INVARIANTS P_Refines P_Structure
CHECK_DEADLOCK FALSE
`, cf.slots, cf.keys, cf.maxTotal)
		res := c.runMC(TLCOpts{Module: "PagedImpl", Cfg: cfg, Purpose: "PagedImpl slots=" + cf.slots, Constants: fmt.Sprintf("pageLen=2 pageGrow=2 unit=2 slots=%s keys=%s maxTotal=%d", cf.slots, cf.keys, cf.maxTotal)})
		fmt.Printf("  [MC PagedImpl slots=%s] %d distinct states: P_Refines P_Structure hold %.0fs\n", cf.slots, res.Distinct, time.Since(c.phaseStart).Seconds())
	}
}
