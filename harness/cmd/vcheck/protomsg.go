package main

// Proto pipeline (Proto.tla): hand-built store messages mixing both bin forms (C09 ii),
// and single-add round trips with arbitrary non-negative float64 weights (C09 iii).

import (
	"encoding/json"
	"fmt"
	"math"
	"time"

	"github.com/DataDog/sketches-go/ddsketch"
	"github.com/DataDog/sketches-go/ddsketch/pb/sketchpb"
	"github.com/DataDog/sketches-go/ddsketch/store"
	"google.golang.org/protobuf/proto"
)

type protoCase struct {
	Sparse  pairList `json:"sparse"`
	Contig  intList  `json:"contig"`
	Offset  int      `json:"offset"`
	Content pairList `json:"content"`
	Low2    pairList `json:"low2"`
	High2   pairList `json:"high2"`
}

func (pc *protoCase) message(base, stride int, q float64) *sketchpb.Store {
	m := &sketchpb.Store{}
	if len(pc.Sparse) > 0 {
		m.BinCounts = map[int32]float64{}
		for _, e := range pc.Sparse {
			m.BinCounts[int32(base+e[0]*stride)] = float64(e[1]) / q
		}
	}
	if stride == 1 {
		for _, c := range pc.Contig {
			m.ContiguousBinCounts = append(m.ContiguousBinCounts, float64(c)/q)
		}
		m.ContiguousBinIndexOffset = int32(base + pc.Offset)
	} else {
		// a contiguous run cannot be stretched: spread it as zeros in between
		for j, c := range pc.Contig {
			if j > 0 {
				for k := 1; k < stride; k++ {
					m.ContiguousBinCounts = append(m.ContiguousBinCounts, 0)
				}
			}
			m.ContiguousBinCounts = append(m.ContiguousBinCounts, float64(c)/q)
		}
		m.ContiguousBinIndexOffset = int32(base + pc.Offset*stride)
	}
	return m
}

func storeEquals(st store.Store, want pairList, base, stride int, q float64) string {
	got := map[int]float64{}
	st.ForEach(func(i int, c float64) bool { got[i] += c; return false })
	if len(got) != len(want) {
		return fmt.Sprintf("store holds %v, the message's documented content is %v (model indexes, quanta)", got, want)
	}
	for _, b := range want {
		if got[base+b[0]*stride]*q != float64(b[1]) {
			return fmt.Sprintf("store holds %v, the message's documented content is %v (model indexes, quanta)", got, want)
		}
	}
	return ""
}

func checkProtoCase(pc *protoCase) string {
	const q = 4.0
	for _, e := range []embedding{{0, 1}, {-40, 1}, {30, 1}, {1000000, 1}, {7, 3}, {math.MinInt32 + 5, 1}, {math.MaxInt32 - 5, 1}} {
		msg := pc.message(e.Base, e.Stride, q)
		bs, err := proto.Marshal(msg)
		if err != nil {
			return "proto.Marshal: " + err.Error()
		}
		msg2 := &sketchpb.Store{}
		if err := proto.Unmarshal(bs, msg2); err != nil {
			return "proto.Unmarshal: " + err.Error()
		}
		for _, kind := range []string{"dense", "sparse", "paged"} {
			st := newRealStore(ModelKind{"exact", 0}, kind)
			store.MergeWithProto(st, msg2)
			if d := storeEquals(st, pc.Content, e.Base, e.Stride, q); d != "" {
				return fmt.Sprintf("MergeWithProto into a %s store (embedding %+v): %s", kind, e, d)
			}
			// into a non-empty store: adds up with what is there
			st2 := newRealStore(ModelKind{"exact", 0}, kind)
			store.MergeWithProto(st2, msg2)
			store.MergeWithProto(st2, msg2)
			twice := make(pairList, len(pc.Content))
			for i, b := range pc.Content {
				twice[i] = [2]int{b[0], 2 * b[1]}
			}
			if d := storeEquals(st2, twice, e.Base, e.Stride, q); d != "" {
				return fmt.Sprintf("MergeWithProto twice into a %s store: %s", kind, d)
			}
		}
		if pg := store.NewBufferedPaginatedStore(); true {
			pg.MergeWithProto(msg2)
			if d := storeEquals(pg, pc.Content, e.Base, e.Stride, q); d != "" {
				return "BufferedPaginatedStore.MergeWithProto: " + d
			}
		}
		if d := storeEquals(store.FromProto(msg2), pc.Content, e.Base, e.Stride, q); d != "" {
			return "store.FromProto: " + d
		}
		if e.Stride == 1 {
			lo := store.NewCollapsingLowestDenseStore(2)
			store.MergeWithProto(lo, msg2)
			if d := storeEquals(lo, pc.Low2, e.Base, 1, q); d != "" {
				return "MergeWithProto into CollapsingLowest(2): " + d
			}
			hi := store.NewCollapsingHighestDenseStore(2)
			store.MergeWithProto(hi, msg2)
			if d := storeEquals(hi, pc.High2, e.Base, 1, q); d != "" {
				return "MergeWithProto into CollapsingHighest(2): " + d
			}
		}
		// whole-sketch message: positive and negative side hand-built, rebuilt with every provider
		ms := MappingSpec{"log", 0.01}
		sk := &sketchpb.DDSketch{Mapping: ms.build().ToProto(), PositiveValues: msg, NegativeValues: msg2, ZeroCount: 0.75}
		sb, _ := proto.Marshal(sk)
		sk2 := &sketchpb.DDSketch{}
		if err := proto.Unmarshal(sb, sk2); err != nil {
			return "proto.Unmarshal of a sketch message: " + err.Error()
		}
		for _, kind := range []string{"dense", "sparse", "paged"} {
			d, err := ddsketch.FromProtoWithStoreProvider(sk2, providerOf(kind))
			if err != nil {
				return "FromProtoWithStoreProvider: " + err.Error()
			}
			if x := storeEquals(d.GetPositiveValueStore(), pc.Content, e.Base, e.Stride, q); x != "" {
				return "FromProtoWithStoreProvider(" + kind + ") positive side: " + x
			}
			if x := storeEquals(d.GetNegativeValueStore(), pc.Content, e.Base, e.Stride, q); x != "" {
				return "FromProtoWithStoreProvider(" + kind + ") negative side: " + x
			}
			if d.GetZeroCount() != 0.75 {
				return fmt.Sprintf("FromProtoWithStoreProvider: zero weight %v, message says 0.75", d.GetZeroCount())
			}
		}
	}
	return ""
}

func runProtoMessagesImpl(c *Ctx) {
	if !c.phase("hand-built protobuf messages") {
		return
	}
	cfg := fmt.Sprintf(`SPECIFICATION Spec
CONSTANTS
  Indexes <- PIdx
  WeightsP <- PWeights
  Offsets <- PIdx
  MaxSparse = %d
  MaxContig = %d
INVARIANTS P_AddsUp P_Fold Emit
CHECK_DEADLOCK FALSE
`, c.pick(2, 3), c.pick(3, 4))
	var n int64
	var parseErr error
	res := c.runTLC(TLCOpts{Module: "Proto", Cfg: cfg, Purpose: "hand-built protobuf messages", Constants: "indexes -2..2, weights {0,1/2,1}, offsets -2..2",
		OnBeh: func(line []byte) {
			pc := &protoCase{}
			if err := json.Unmarshal(line, pc); err != nil {
				if parseErr == nil {
					parseErr = fmt.Errorf("%v in %.200s", err, line)
				}
				return
			}
			n++
			if n <= 2 {
				c.addSample(map[string]interface{}{"pipeline": "Proto.tla message", "sparse": pc.Sparse, "contig": pc.Contig, "offset": pc.Offset, "content": pc.Content})
			}
			c.addDistinct(string(line))
			if what := checkProtoCase(pc); what != "" {
				c.report(&Violation{Pipeline: "proto", Case: pc, What: what, Tags: map[string]string{"outcome": "mismatch"}})
			}
		}})
	if parseErr != nil {
		infraFail("cannot parse message: %v", parseErr)
	}
	if res.Violated != "" {
		infraFail("Proto.tla violated %s\n%s", res.Violated, res.ErrorText)
	}
	c.mu.Lock()
	c.Ev.Coverage.Traces += n
	c.Ev.Coverage.Evaluations += n
	c.Ev.Coverage.StepsCompared += n * 7
	c.Ev.Coverage.States += res.Distinct
	c.Ev.Coverage.Transitions += res.Generated
	c.mu.Unlock()
	fmt.Printf("  [hand-built protobuf messages] %d messages x 7 embeddings decoded into every store kind %.0fs\n", n, time.Since(c.phaseStart).Seconds())
}

// arbitrary non-negative float64 weights: single-bin sketches (no float sum occurs)
func runProtoArbitraryWeightsImpl(c *Ctx) {
	if !c.phase("arbitrary weights") {
		return
	}
	weights := []float64{0.1, math.Pi, 1e-300, 1e300, 5e-324, 1.0 / 3, 123456789.125, math.MaxFloat64, 2.5e-17}
	n := 0
	for _, ms := range []MappingSpec{{"log", 0.01}, {"linear", 0.02}, {"cubic", 0.005}} {
		for _, src := range []string{"dense", "sparse", "paged", "low", "high"} {
			for _, dst := range []string{"dense", "sparse", "paged", "low", "high"} {
				for _, wt := range weights {
					for _, val := range []float64{3.5, -3.5, 0} {
						n++
						mk := func(k string) store.Store {
							if k == "low" || k == "high" {
								return newRealStore(ModelKind{k, 4}, "")
							}
							return newRealStore(ModelKind{"exact", 0}, k)
						}
						s := ddsketch.NewDDSketch(ms.build(), mk(src), mk(src))
						if err := s.AddWithCount(val, wt); err != nil {
							c.report(&Violation{Pipeline: "proto-weights", Case: map[string]interface{}{"value": val, "weight": wt}, What: "AddWithCount refused a finite value with a non-negative weight: " + err.Error(), Tags: map[string]string{"outcome": "mismatch"}})
							continue
						}
						var buf writerBuf
						s.EncodeProto(&buf)
						streamed := &sketchpb.DDSketch{}
						if err := proto.Unmarshal(buf.b, streamed); err != nil {
							c.report(&Violation{Pipeline: "proto-weights", Case: map[string]interface{}{"value": val, "weight": wt}, What: "EncodeProto bytes do not unmarshal: " + err.Error(), Tags: map[string]string{"outcome": "mismatch"}})
							continue
						}
						if d := protoSketchDiff(streamed, s.ToProto()); d != "" {
							c.report(&Violation{Pipeline: "proto-weights", Case: map[string]interface{}{"value": val, "weight": wt, "store": src}, What: "EncodeProto vs ToProto: " + d, Tags: map[string]string{"outcome": "mismatch"}})
						}
						bs, _ := proto.Marshal(s.ToProto())
						m2 := &sketchpb.DDSketch{}
						proto.Unmarshal(bs, m2)
						n2 := 0
						d, err := ddsketch.FromProtoWithStoreProvider(m2, func() store.Store { n2++; return mk(dst) })
						if err != nil {
							c.report(&Violation{Pipeline: "proto-weights", Case: map[string]interface{}{"value": val, "weight": wt}, What: "FromProtoWithStoreProvider: " + err.Error(), Tags: map[string]string{"outcome": "mismatch"}})
							continue
						}
						if x := protoSketchDiff(d.ToProto(), s.ToProto()); x != "" {
							c.report(&Violation{Pipeline: "proto-weights", Case: map[string]interface{}{"value": val, "weight": wt, "src": src, "dst": dst, "mapping": ms},
								What: fmt.Sprintf("sketch holding %v with weight %v rebuilt from its protobuf message (%s -> %s store) differs bit for bit: %s", val, wt, src, dst, x), Tags: map[string]string{"outcome": "mismatch"}})
						}
						if sameMapping(d.IndexMapping, s.IndexMapping) != "" {
							c.report(&Violation{Pipeline: "proto-weights", Case: map[string]interface{}{"mapping": ms}, What: "mapping of the rebuilt sketch differs", Tags: map[string]string{"outcome": "mismatch"}})
						}
					}
				}
			}
		}
	}
	c.mu.Lock()
	c.Ev.Coverage.Evaluations += int64(n)
	c.mu.Unlock()
	c.extra("arbitrary_weight_round_trips", n)
	fmt.Printf("  [arbitrary weights] %d single-bin round trips with non-dyadic weights %.0fs\n", n, time.Since(c.phaseStart).Seconds())
}
