package main

func init() {
	checks["C01"] = checkC01
	checks["C11"] = checkC11
}

var alphasQuick = []float64{1e-3, 0.01, 0.1, 0.5, 0.99}
var alphasThorough = []float64{1e-6, 1e-3, 0.01, 0.05, 0.1, 0.5, 0.9, 0.99}

func (c *Ctx) alphas() []float64 {
	if c.quick() {
		return alphasQuick
	}
	return alphasThorough
}

var tokBins2 = []int{10, 11, 12, 13, -10, -11, -12, -13}
var tokBins3 = []int{10, 11, 12, 13, 14, 15, -10, -11, -12, -13, -14, -15}
var tokZero = []int{0, -1, 2, -2, 3, -3}

// C01 - quantile estimates honour the relative-accuracy guarantee (unit-weight adds, non-collapsing stores)
func checkC01(c *Ctx) {
	c.Ev.Coverage.Rule = "TLC checks K_Rank/K_Ends/K_Monotone of Sketch.tla for every multiset of value tokens (bin-edge floats of 2-3 bins per side, zero-bucket tokens) added one at a time, then emits every such history (exhaustive tree) and long random ones; each is replayed on real sketches for mapping in {log,linear,cubic} x alpha x store in {dense,sparse,paginated} x key embeddings (bins around 1.0, smallest and largest indexable bins); after every step every q=a/8 is queried and the answer must be within alpha (+2e-12) of a token that holds the order statistic of rank floor or ceil of q(n-1) in the specification's bag. distinct_nontrivial counts distinct (bag, event) pairs replayed."
	c.Ev.Coverage.CheckerCmd = "./check C01 " + c.Tier
	c.Ev.Assumptions = []string{"values are the extreme float64 of real bins found by bisection on the real Index() (abstraction relation R, DESIGN 3.3)", "numeric slack 2e-12 relative on top of alpha (DESIGN 3.4)", "q restricted to the dyadic grid a/8 in direction A"}
	c.Ev.Coverage.TrustedBase = []string{"abstraction relation R (token concretisation, |y-x| <= alpha|x| + 2e-12|x|)"}
	one := plainExact(1, "plain")
	toks := append(append([]int{}, tokBins2...), 0, 2, -3)
	g := &SketchGen{Init: one, Tokens: toks, Ops: []string{"Add"}, Q: 4, QDen: 8}
	c.runSketchMC(g, c.pick(20, 28), "TypeOK K_Content K_Merge K_Rank K_Ends K_Monotone", "K_OnlyReceiverChanges", "unit adds, 1 sketch")
	mx := &SketchMatrix{Mappings: mappingMatrix(c.alphas(), nil), Reals: exactRealKinds,
		Aspects: map[string]bool{"bins": true, "quantile": true, "strict": true}}
	tree := *g
	tree.Depth = c.pick(4, 5)
	c.runSketchGen(&tree, mx, c.pick(6, 12), "exhaustive tree of unit adds")
	sim := &SketchGen{Init: one, Tokens: append(append([]int{}, tokBins3...), tokZero...), Ops: []string{"Add"}, Q: 4, QDen: 8,
		Depth: c.pick(12, 24), Simulate: true, Num: c.pick(1500, 20000)}
	c.runSketchGen(sim, mx, c.pick(8, 16), "simulated long add histories")
	// bulk adds: 70 adds of one value make the paginated store allocate a page while isolated lower values stay in its
	// buffer; with three more adds n-1 = 72 and the grid k/72 asks for EVERY integer rank, also the one where the answer
	// moves from the buffer to the page
	bulk := &SketchGen{Init: one, Tokens: []int{10, 11, 14, -12}, Ops: []string{"Add", "AddN"}, Q: 4, QDen: 72, Depth: 4}
	c.runSketchGen(bulk, mx, c.pick(6, 12), "exhaustive tree with bulk adds, q on the grid k/72")
	// direction B: production-size inputs, q = every k/(n-1) and both float neighbours, validated by TLC (Trace_Sketch)
	c.runSketchTraces(c.pick(4, 24), false, c.pick(600, 2000), "unit-weight inputs, q at every k/(n-1)")
}

// C11 - weighted quantiles only return values the sketch holds, at the right rank
func checkC11(c *Ctx) {
	c.Ev.Coverage.Rule = "TLC checks the weighted form of K_Rank (answer bin holds a token whose cumulative-weight interval is within one unit of q(W-1)) and K_Monotone for every weighted multiset (weights 1/4..3 units, totals from 1/4 unit, reached by weighted adds or Reweight) and emits the histories; each is replayed on real sketches (all mappings, alphas, non-collapsing stores); every q=a/8 answer must be within alpha of an allowed token of the specification's bag, between the reported min and max."
	c.Ev.Coverage.CheckerCmd = "./check C11 " + c.Tier
	c.Ev.Assumptions = []string{"weights are multiples of 1/4 (exact in float64)", "abstraction relation R as in C01"}
	c.Ev.Coverage.TrustedBase = []string{"abstraction relation R (token concretisation, |y-x| <= alpha|x| + 2e-12|x|)"}
	one := plainExact(1, "plain")
	g := &SketchGen{Init: one, Tokens: []int{10, 13, -10, -13, 0}, Weights: []int{1, 2, 4, 8}, Factors: [][2]int{{1, 2}, {2, 1}, {1, 4}},
		Ops: []string{"AddW", "Reweight"}, Q: 4, QDen: 8}
	c.runSketchMC(g, c.pick(16, 24), "TypeOK K_Content K_Merge K_Rank K_Ends K_Monotone", "K_Reweight K_OnlyReceiverChanges", "weighted adds and reweight, 1 sketch")
	mx := &SketchMatrix{Mappings: mappingMatrix(c.alphas(), nil), Reals: exactRealKinds,
		Aspects: map[string]bool{"bins": true, "quantile": true, "minmax": true}}
	tree := &SketchGen{Init: one, Tokens: []int{10, 13, -10, -13, 0}, Weights: []int{1, 2, 4, 12}, Factors: [][2]int{{1, 2}, {1, 4}, {3, 1}},
		Ops: []string{"AddW", "Reweight"}, Q: 4, QDen: 8, Depth: c.pick(3, 4)}
	c.runSketchGen(tree, mx, c.pick(6, 12), "exhaustive tree of weighted adds")
	sim := &SketchGen{Init: one, Tokens: append(append([]int{}, tokBins3...), 0, 2), Weights: []int{1, 2, 3, 4, 8, 12, 4096},
		Factors: [][2]int{{1, 2}, {1, 4}, {2, 1}, {3, 1}, {1, 1}}, Ops: []string{"AddW", "AddW", "Add", "Reweight"}, Q: 4, QDen: 8,
		Depth: c.pick(10, 20), Simulate: true, Num: c.pick(1500, 20000)}
	c.runSketchGen(sim, mx, c.pick(8, 16), "simulated weighted histories")
	c.runSketchTraces(c.pick(6, 40), true, c.pick(600, 2000), "weighted inputs, random and extreme q")
}
