package main

// ChangeMapping (C17 and the unit-change clause of C10): checks made at the
// ChangeMap event, against the REAL source sketch; the specification supplies
// the event, the identity-shortcut rule and - through the source slot's
// prediction - the source bins allowed at each quantile rank.

import (
	"fmt"
	"math"
	"sort"

	"github.com/DataDog/sketches-go/ddsketch/mapping"
	"github.com/DataDog/sketches-go/ddsketch/store"
)

type binW struct {
	idx int
	w   float64
}

func sortedBins(st store.Store) []binW {
	var out []binW
	st.ForEach(func(i int, c float64) bool { out = append(out, binW{i, c}); return false })
	sort.Slice(out, func(a, b int) bool { return out[a].idx < out[b].idx })
	return out
}

// rawBins exposes also non-positive bins (ForEach of the dense stores hides them)
func rawBins(st store.Store) map[int]float64 {
	m := map[int]float64{}
	p := st.ToProto()
	for k, v := range p.BinCounts {
		m[int(k)] += v
	}
	for i, v := range p.ContiguousBinCounts {
		m[i+int(p.ContiguousBinIndexOffset)] += v
	}
	return m
}

func (w *sketchWorld) checkChangeMap(e *SkEvent, srcBefore *skSnap, srcPred *SkObs, asp map[string]bool) string {
	cfg := w.cfg
	src, dst := w.sk[e.S-1], w.sk[e.T-1]
	scale := cfg.Scales[e.W]
	if after := snapshot(src); !snapEqual(srcBefore, after) {
		return fmt.Sprintf("the source sketch changed:\nbefore: %s\nafter:  %s", srcBefore, after)
	}
	want := cfg.conc(e.V).spec.build()
	if d := sameMapping(dst.base().IndexMapping, want); d != "" {
		return "result " + d + " (requested mapping)"
	}
	if (dst.exact != nil) != (src.exact != nil) {
		return "INFRA: variant of the converted sketch"
	}
	dsnap := snapshot(dst)
	if scale == 1 && e.V == src.m {
		// identity: an exact copy
		if !snapEqual(srcBefore, dsnap) {
			return fmt.Sprintf("equal mapping and scale 1 must give an exact copy:\nsource: %s\nresult: %s", srcBefore, dsnap)
		}
		return ""
	}
	if asp["cm-stats"] && src.exact != nil {
		// C10: exact statistics are rescaled by the factor
		if dsnap.XCount != srcBefore.XCount {
			return fmt.Sprintf("exact count %v, the source's is %v", math.Float64frombits(dsnap.XCount), math.Float64frombits(srcBefore.XCount))
		}
		if !srcBefore.XMinErr {
			mn, mx := math.Float64frombits(srcBefore.XMin)*scale, math.Float64frombits(srcBefore.XMax)*scale
			if math.Float64frombits(dsnap.XMin) != mn || math.Float64frombits(dsnap.XMax) != mx {
				return fmt.Sprintf("exact min/max %v/%v, the source's rescaled by %v are %v/%v", math.Float64frombits(dsnap.XMin), math.Float64frombits(dsnap.XMax), scale, mn, mx)
			}
			ss := math.Float64frombits(srcBefore.XSum) * scale
			if math.Abs(math.Float64frombits(dsnap.XSum)-ss) > 4e-16*math.Abs(ss) {
				return fmt.Sprintf("exact sum %v, the source's rescaled by %v is %v", math.Float64frombits(dsnap.XSum), scale, ss)
			}
		}
	}
	if !asp["cm"] {
		return ""
	}
	// ---- C17 numeric clauses ----
	if dsnap.Zero != srcBefore.Zero {
		return fmt.Sprintf("zero weight %v, the source's is %v", math.Float64frombits(dsnap.Zero), math.Float64frombits(srcBefore.Zero))
	}
	sb, db := src.base(), dst.base()
	m1, m2 := sb.IndexMapping, db.IndexMapping
	type side struct {
		name     string
		src, dst store.Store
	}
	for _, sd := range []side{{"positive", sb.GetPositiveValueStore(), db.GetPositiveValueStore()}, {"negative", sb.GetNegativeValueStore(), db.GetNegativeValueStore()}} {
		for idx, v := range rawBins(sd.dst) {
			if v < 0 {
				return fmt.Sprintf("%s store of the result holds a bin of negative weight: bin %d = %v", sd.name, idx, v)
			}
		}
		st, dt := sd.src.TotalCount(), sd.dst.TotalCount()
		if math.Abs(st-dt) > 1e-9*math.Max(st, 1e-300) {
			return fmt.Sprintf("%s store total weight %v, the source's is %v", sd.name, dt, st)
		}
		if d := localityDiff(m1, m2, sortedBins(sd.src), sortedBins(sd.dst), scale, st); d != "" {
			return sd.name + " store: " + d
		}
	}
	// every quantile of the result is within the combined accuracy of the scaled estimate of a source bin
	// whose cumulative-weight interval is within one unit of q(W-1) (allowed bins: the specification's, for the source)
	if srcPred != nil && !srcPred.Opq && !srcPred.Empty {
		a1, a2 := m1.RelativeAccuracy(), m2.RelativeAccuracy()
		lo, hi := (1-a2)/(1+a1), (1+a2)/(1-a1)
		sconc := cfg.conc(src.m)
		for _, qp := range srcPred.Qs {
			qq := float64(qp.A) / float64(cfg.QDen)
			y, err := db.GetValueAtQuantile(qq)
			if err != nil {
				return fmt.Sprintf("GetValueAtQuantile(%v) of the result failed: %v", qq, err)
			}
			ok := false
			for _, x := range qp.Bins {
				s, k := binOfRank(x)
				if s == 0 {
					if y == 0 {
						ok = true
					}
					continue
				}
				xs := float64(s) * m1.Value(cfg.Keys.idxFor(sconc, k)) * scale
				if xs != 0 {
					r := y / xs
					if r >= lo-1e-9 && r <= hi+1e-9 {
						ok = true
					}
				}
			}
			if !ok {
				return fmt.Sprintf("quantile %v of the result is %v: not within the combined accuracy [%.6g, %.6g] of the scaled estimate of any source bin whose rank is within one unit of weight (allowed source bin ranks %v, scale %v)", qq, y, lo, hi, qp.Bins, scale)
			}
		}
	}
	return ""
}

// localityDiff: weight only moves between bins whose (scaled) ranges overlap. Stated on cumulative
// distributions: at every target-bin boundary x, the weight of the target bins entirely below x lies
// between the weight of the source bins entirely below x and the weight of those starting below x.
func localityDiff(m1, m2 mapping.IndexMapping, src, dst []binW, scale float64, total float64) string {
	eps := 1e-9 * math.Max(total, 1)
	for j := 0; j <= len(dst); j++ {
		var x float64
		if j < len(dst) {
			x = m2.LowerBound(dst[j].idx)
		} else if len(dst) > 0 {
			x = m2.LowerBound(dst[len(dst)-1].idx + 1)
		} else {
			break
		}
		below := 0.0
		for k := 0; k < j; k++ {
			below += dst[k].w
		}
		var entirely, starting float64
		for _, b := range src {
			l, h := m1.LowerBound(b.idx)*scale, m1.LowerBound(b.idx+1)*scale
			if h <= x*(1+1e-12) {
				entirely += b.w
			}
			if l < x*(1-1e-12) {
				starting += b.w
			}
		}
		if below < entirely-eps || below > starting+eps {
			return fmt.Sprintf("weight %v lies below the target bin boundary %v, but the source bins entirely below it hold %v and those starting below it hold %v: weight moved to bins that do not overlap its scaled range", below, x, entirely, starting)
		}
	}
	return ""
}
