package main

// The abstraction relation R between model tokens and float64 values of a real
// mapping (DESIGN.md section 3.3/3.4): concretisation of value tokens to the
// extreme floats of real bins, and the numeric accuracy predicate. R never
// decides WHICH token, bin, rank or error is expected - the specification does.

import (
	"fmt"
	"math"
	"strconv"
	"strings"
	"sync"

	"github.com/DataDog/sketches-go/ddsketch/mapping"
)

type MappingSpec struct {
	Kind  string  `json:"kind"` // log | linear | cubic
	Alpha float64 `json:"alpha"`
}

// A Kind of the form "linear#-7.5" denotes the kind's from-accuracy gamma with the explicit index offset -7.5.
// A Kind of the form "cubic@log" denotes the cubic mapping built with ...WithGamma(gamma, offset) where gamma and offset
// are those of the LOGARITHMIC mapping built from Alpha: another kind with bit-identical parameters.

func (ms MappingSpec) build() mapping.IndexMapping {
	var m mapping.IndexMapping
	var err error
	if i := strings.Index(ms.Kind, "#"); i > 0 {
		// "linear#-7.5": the kind's from-accuracy gamma with the explicit index offset -7.5
		off, perr := strconv.ParseFloat(ms.Kind[i+1:], 64)
		if perr != nil {
			panic("bad mapping spec " + ms.Kind)
		}
		g := MappingSpec{Kind: ms.Kind[:i], Alpha: ms.Alpha}.build().ToProto().Gamma
		switch ms.Kind[:i] {
		case "log":
			m, err = mapping.NewLogarithmicMappingWithGamma(g, off)
		case "linear":
			m, err = mapping.NewLinearlyInterpolatedMappingWithGamma(g, off)
		default:
			m, err = mapping.NewCubicallyInterpolatedMappingWithGamma(g, off)
		}
		if err != nil {
			panic(fmt.Sprintf("mapping %v: %v", ms, err))
		}
		return m
	}
	if i := strings.Index(ms.Kind, "@"); i > 0 {
		p := MappingSpec{Kind: ms.Kind[i+1:], Alpha: ms.Alpha}.build().ToProto()
		switch ms.Kind[:i] {
		case "log":
			m, err = mapping.NewLogarithmicMappingWithGamma(p.Gamma, p.IndexOffset)
		case "linear":
			m, err = mapping.NewLinearlyInterpolatedMappingWithGamma(p.Gamma, p.IndexOffset)
		default:
			m, err = mapping.NewCubicallyInterpolatedMappingWithGamma(p.Gamma, p.IndexOffset)
		}
		if err != nil {
			panic(fmt.Sprintf("mapping %v: %v", ms, err))
		}
		return m
	}
	switch ms.Kind {
	case "log":
		m, err = mapping.NewLogarithmicMapping(ms.Alpha)
	case "linear":
		m, err = mapping.NewLinearlyInterpolatedMapping(ms.Alpha)
	case "cubic":
		m, err = mapping.NewCubicallyInterpolatedMapping(ms.Alpha)
	default:
		panic("unknown mapping kind " + ms.Kind)
	}
	if err != nil {
		panic(fmt.Sprintf("mapping %v: %v", ms, err))
	}
	return m
}

const relSlack = 2e-12 // the "few ulps" of the property texts, measured on the unchanged code (DESIGN 3.4)

// within reports |y-x| <= alpha|x| + slack|x|
func within(y, x, alpha float64) bool {
	return math.Abs(y-x) <= alpha*math.Abs(x)+relSlack*math.Abs(x)
}

type binEdges struct {
	lo, hi float64 // smallest / largest float64 mapped to the bin
	ok     bool
}

type concretizer struct {
	spec MappingSpec
	m    mapping.IndexMapping
	mu   sync.Mutex
	bins map[int]binEdges
}

var concMu sync.Mutex
var concCache = map[MappingSpec]*concretizer{}

func concretizerFor(ms MappingSpec) *concretizer {
	concMu.Lock()
	defer concMu.Unlock()
	if c, ok := concCache[ms]; ok {
		return c
	}
	c := &concretizer{spec: ms, m: ms.build(), bins: map[int]binEdges{}}
	concCache[ms] = c
	return c
}

// edges finds the extreme float64 of real bin idx by bisection over the float
// ordinal space with the real Index(). ok=false if the bin is not cleanly
// inside the indexable range (such bins are never concretised).
func (c *concretizer) edges(idx int) binEdges {
	c.mu.Lock()
	if e, ok := c.bins[idx]; ok {
		c.mu.Unlock()
		return e
	}
	c.mu.Unlock()
	e := c.computeEdges(idx)
	c.mu.Lock()
	c.bins[idx] = e
	c.mu.Unlock()
	return e
}

func (c *concretizer) computeEdges(idx int) (e binEdges) {
	defer func() {
		if r := recover(); r != nil {
			e = binEdges{}
		}
	}()
	m := c.m
	mid := m.Value(idx)
	prev := m.Value(idx - 1)
	next := m.Value(idx + 1)
	if !(prev > m.MinIndexableValue() && next < m.MaxIndexableValue() && prev < mid && mid < next) {
		return binEdges{}
	}
	if m.Index(mid) != idx || m.Index(prev) != idx-1 || m.Index(next) != idx+1 {
		return binEdges{}
	}
	// smallest v in (prev, mid] with Index(v) >= idx
	a, b := math.Float64bits(prev), math.Float64bits(mid)
	for b-a > 1 {
		h := a + (b-a)/2
		if m.Index(math.Float64frombits(h)) >= idx {
			b = h
		} else {
			a = h
		}
	}
	lo := math.Float64frombits(b)
	// largest v in [mid, next) with Index(v) <= idx
	a, b = math.Float64bits(mid), math.Float64bits(next)
	for b-a > 1 {
		h := a + (b-a)/2
		if m.Index(math.Float64frombits(h)) <= idx {
			a = h
		} else {
			b = h
		}
	}
	hi := math.Float64frombits(a)
	if m.Index(lo) != idx || m.Index(hi) != idx {
		return binEdges{}
	}
	return binEdges{lo: lo, hi: hi, ok: true}
}

// keyEmbedding maps model keys to real bin indexes of a mapping.
type keyEmbedding struct {
	Base   int `json:"base"`
	Stride int `json:"stride"`
	Top    int `json:"top"` // real index of the bin of MaxIndexableValue (model key TopKey)
}

const topKey = 495

func (ke keyEmbedding) idx(k int) int {
	if k == topKey {
		panic("idx(topKey) needs the mapping: use idxFor")
	}
	return ke.Base + k*ke.Stride
}

// idxFor also resolves the model key TopKey (bin of MaxIndexableValue of THAT mapping)
func (ke keyEmbedding) idxFor(c *concretizer, k int) int {
	if k == topKey {
		return c.m.Index(c.m.MaxIndexableValue())
	}
	return ke.Base + k*ke.Stride
}

// tokenValue concretises a value token (see Sketch.tla) to a float64.
func tokenValue(c *concretizer, ke keyEmbedding, v int) (float64, bool) {
	m := c.m
	av := v
	sign := 1.0
	if v < 0 {
		av, sign = -v, -1
	}
	switch {
	case v == 0:
		return 0, true
	case v == -1:
		return math.Copysign(0, -1), true
	case av == 2:
		return sign * m.MinIndexableValue() / 2, true
	case av == 3:
		return sign * m.MinIndexableValue(), true
	case av == 1000:
		return sign * m.MaxIndexableValue(), true
	case v == 5000:
		return math.NaN(), true
	case av == 5001:
		return math.Inf(int(sign)), true
	case av == 5002:
		return sign * math.Nextafter(m.MaxIndexableValue(), math.Inf(1)), true
	case av == 5003:
		return sign * math.MaxFloat64, true
	case av >= 10 && av < 1000:
		k := (av - 10) / 2
		e := c.edges(ke.idx(k))
		if !e.ok {
			return 0, false
		}
		if (av-10)%2 == 0 {
			return sign * e.lo, true
		}
		return sign * e.hi, true
	}
	return 0, false
}

func isZeroClass(v int) bool { return v > -10 && v < 10 }

// yMatchesToken: a returned value y is an acceptable estimate of token v (relative accuracy alpha)
func yMatchesToken(c *concretizer, ke keyEmbedding, y float64, v int) bool {
	if isZeroClass(v) {
		return y == 0
	}
	x, ok := tokenValue(c, ke, v)
	if !ok {
		return false
	}
	return within(y, x, c.m.RelativeAccuracy())
}

// yMatchesBin: y is within alpha of some value of bin (side,key); side 0 is the zero bucket
func yMatchesBin(c *concretizer, ke keyEmbedding, y float64, side, key int) bool {
	if side == 0 {
		return y == 0
	}
	var lo, hi float64
	if key == topKey {
		// the top bin is only partly inside the indexable range: accept within alpha of MaxIndexableValue
		return within(y, float64(side)*c.m.MaxIndexableValue(), c.m.RelativeAccuracy())
	}
	e := c.edges(ke.idx(key))
	if !e.ok {
		return false
	}
	lo, hi = e.lo, e.hi
	a := c.m.RelativeAccuracy()
	ay := y * float64(side)
	return ay >= lo*(1-a)-relSlack*lo && ay <= hi*(1+a)+relSlack*hi
}

// keyEmbeddingsFor proposes key embeddings for a mapping: around 1.0, near the
// smallest and near the largest indexable bins. Collapsing stores need stride 1.
func keyEmbeddingsFor(c *concretizer, maxKey int, strideOneOnly bool, thorough bool) []keyEmbedding {
	m := c.m
	top := m.Index(m.MaxIndexableValue())
	bot := m.Index(m.MinIndexableValue())
	strides := []int{1, 2, 3, 7}
	if strideOneOnly {
		strides = []int{1}
	}
	var out []keyEmbedding
	add := func(base, stride int) {
		ke := keyEmbedding{Base: base, Stride: stride, Top: top}
		for k := 0; k <= maxKey; k++ {
			if !c.edges(ke.idx(k)).ok {
				return
			}
		}
		out = append(out, ke)
	}
	for i, st := range strides {
		add(-2+i, st)
		if thorough || i < 2 {
			add(bot+3+i, st)
			add(top-4-maxKey*st-i, st)
		}
	}
	add(37, 1)
	add(-1000, 1)
	// page boundaries of the paginated store (pages of 32 indexes): keys straddling ...31|32..., ...-33|-32..., -1|0
	add(31, 1)
	add(-33, 1)
	add(-1, 1)
	if !strideOneOnly {
		add(30, 2)
	}
	add(-53, 1)
	if !strideOneOnly {
		add(-61, 2)
	}
	return out
}
