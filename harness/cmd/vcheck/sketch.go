package main

// Sketch pipeline (Sketch.tla): adapter from model events to real DDSketch /
// DDSketchWithExactSummaryStatistics objects, projection through the public
// API and comparison with the specification's prediction, aspect by aspect.

import (
	"encoding/json"
	"errors"
	"fmt"
	"math"
	"math/big"
	"sort"
	"strings"

	"github.com/DataDog/sketches-go/ddsketch"
	"github.com/DataDog/sketches-go/ddsketch/mapping"
	"github.com/DataDog/sketches-go/ddsketch/pb/sketchpb"
	"github.com/DataDog/sketches-go/ddsketch/stat"
	"github.com/DataDog/sketches-go/ddsketch/store"
	"google.golang.org/protobuf/proto"
)

// ---- model side ------------------------------------------------------------

type SkEvent struct {
	Op  string `json:"op"`
	S   int    `json:"s"`
	T   int    `json:"t"`
	V   int    `json:"v"`
	W   int    `json:"w"`
	Num int    `json:"num"`
	Den int    `json:"den"`
}

type intList []int

func (p *intList) UnmarshalJSON(b []byte) error {
	s := strings.TrimSpace(string(b))
	if s == "{}" || s == "null" {
		*p = nil
		return nil
	}
	var x []int
	if err := json.Unmarshal(b, &x); err != nil {
		return err
	}
	*p = x
	return nil
}

type strList []string

func (p *strList) UnmarshalJSON(b []byte) error {
	s := strings.TrimSpace(string(b))
	if s == "{}" || s == "null" {
		*p = nil
		return nil
	}
	var x []string
	if err := json.Unmarshal(b, &x); err != nil {
		return err
	}
	*p = x
	return nil
}

type QPred struct {
	A      int     `json:"a"`
	Oper   [2]int  `json:"oper"`
	Bins   intList `json:"bins"`   // allowed bin-level ranks (C11 on the held content)
	Toks   intList `json:"toks"`   // allowed tokens (C11), only when the content is exact
	Unit   bool    `json:"unit"`   // unit weights: the strict floor/ceil statement of C01 applies
	Strict intList `json:"strict"` // allowed tokens by the floor/ceil rule
}

type qList []QPred

func (p *qList) UnmarshalJSON(b []byte) error {
	s := strings.TrimSpace(string(b))
	if s == "{}" || s == "null" {
		*p = nil
		return nil
	}
	var x []QPred
	if err := json.Unmarshal(b, &x); err != nil {
		return err
	}
	*p = x
	return nil
}

type SkObs struct {
	Variant string   `json:"variant"`
	M       int      `json:"m"`
	Opq     bool     `json:"opq"`
	Empty   bool     `json:"empty"`
	Count   int      `json:"count"`
	Zero    int      `json:"zero"`
	Pos     pairList `json:"pos"`
	Neg     pairList `json:"neg"`
	Bag     pairList `json:"bag"`
	Exact   bool     `json:"exact"`
	MinOper [2]int   `json:"minOper"`
	MaxOper [2]int   `json:"maxOper"`
	MinTok  int      `json:"minTok"`
	MaxTok  int      `json:"maxTok"`
	Xcnt    int      `json:"xcnt"`
	Xmin    int      `json:"xmin"`
	Xmax    int      `json:"xmax"`
	Qs      qList    `json:"qs"`
}

type SkStep struct {
	Ev   SkEvent `json:"ev"`
	Err  string  `json:"err"`
	Errs strList `json:"errs"`
	Pred []SkObs `json:"pred"`
}

// ---- replay configuration --------------------------------------------------

type SketchInit struct {
	Variant string    `json:"variant"` // plain | exact
	M       int       `json:"m"`
	Pos     ModelKind `json:"pos"`
	Neg     ModelKind `json:"neg"`
}

type SketchCfg struct {
	Init     []SketchInit    `json:"init"`
	Mappings []MappingSpec   `json:"mappings"` // index = mapping token - 1
	PosReal  []string        `json:"posReal"`  // real type for exact-kind stores per slot
	NegReal  []string        `json:"negReal"`
	Keys     keyEmbedding    `json:"keys"`
	Q        int             `json:"q"`
	QDen     int             `json:"qden"`
	Mode     string          `json:"mode"`             // every | final
	Proto    int             `json:"proto"`            // protobuf path variant
	Scales   []float64       `json:"scales,omitempty"` // scale factors of ChangeMap events, index = scale token
	Aspects  map[string]bool `json:"aspects"`
}

func (c *SketchCfg) conc(m int) *concretizer { return concretizerFor(c.Mappings[m-1]) }

// a real sketch in a slot
type realSketch struct {
	plain *ddsketch.DDSketch
	exact *ddsketch.DDSketchWithExactSummaryStatistics
	m     int // mapping token
	// sumOverflowed: at some point since the last Clear the total of |value*weight| this sketch (or one it absorbed)
	// held was beyond what a float64 sum can carry; its exact sum is then +-Inf/NaN for good and is not compared
	sumOverflowed bool
}

func (r *realSketch) base() *ddsketch.DDSketch {
	if r.exact != nil {
		return r.exact.DDSketch
	}
	return r.plain
}

type sketchWorld struct {
	cfg *SketchCfg
	sk  []*realSketch
}

func (w *sketchWorld) provider(slot int) store.Provider {
	if in := w.cfg.Init[slot]; in.Pos.Kind == "exact" && in.Neg.Kind == "exact" && w.cfg.PosReal[slot] == w.cfg.NegReal[slot] {
		// the library's own providers where the configuration is one of them
		switch w.cfg.PosReal[slot] {
		case "dense":
			return store.DenseStoreConstructor
		case "sparse":
			return store.SparseStoreConstructor
		case "paged":
			return store.DefaultProvider
		}
	}
	n := 0
	return func() store.Store {
		n++
		in := w.cfg.Init[slot]
		if n%2 == 1 {
			return newRealStore(in.Pos, w.cfg.PosReal[slot])
		}
		return newRealStore(in.Neg, w.cfg.NegReal[slot])
	}
}

func (w *sketchWorld) newSketch(slot int) *realSketch {
	in := w.cfg.Init[slot]
	m := w.cfg.conc(in.M).spec.build()
	pos := newRealStore(in.Pos, w.cfg.PosReal[slot])
	neg := newRealStore(in.Neg, w.cfg.NegReal[slot])
	base := ddsketch.NewDDSketch(m, pos, neg)
	// every other slot is built through the library's preset constructor when the configuration is one the library
	// offers ready-made (binds the presets to the kinds the specification assumes for them)
	if p := w.preset(slot); p != nil && slot%2 == 0 {
		base = p
		if in.Variant == "exact" && in.Pos.Kind == "exact" && w.cfg.PosReal[slot] == "paged" {
			ex, err := ddsketch.NewDefaultDDSketchWithExactSummaryStatistics(w.cfg.conc(in.M).spec.Alpha)
			if err != nil {
				panic("preset constructor refused alpha: " + err.Error())
			}
			return &realSketch{exact: ex, m: in.M}
		}
	} else if in.Variant == "exact" && slot%2 == 1 && in.Pos == in.Neg && w.cfg.PosReal[slot] == w.cfg.NegReal[slot] {
		return &realSketch{exact: ddsketch.NewDDSketchWithExactSummaryStatistics(m, w.provider(slot)), m: in.M}
	}
	if in.Variant == "exact" {
		ex, err := ddsketch.NewDDSketchWithExactSummaryStatisticsFromData(base, stat.NewSummaryStatistics())
		if err != nil {
			panic("cannot build exact sketch: " + err.Error())
		}
		return &realSketch{exact: ex, m: in.M}
	}
	return &realSketch{plain: base, m: in.M}
}

// preset returns the sketch built by the library's ready-made constructor matching slot's configuration, or nil
func (w *sketchWorld) preset(slot int) *ddsketch.DDSketch {
	in := w.cfg.Init[slot]
	ms := w.cfg.conc(in.M).spec
	if ms.Kind != "log" || in.Pos != in.Neg {
		return nil
	}
	var sk *ddsketch.DDSketch
	var err error
	switch {
	case in.Pos.Kind == "low":
		sk, err = ddsketch.LogCollapsingLowestDenseDDSketch(ms.Alpha, in.Pos.N)
	case in.Pos.Kind == "high":
		sk, err = ddsketch.LogCollapsingHighestDenseDDSketch(ms.Alpha, in.Pos.N)
	case w.cfg.PosReal[slot] == "dense" && w.cfg.NegReal[slot] == "dense":
		sk, err = ddsketch.LogUnboundedDenseDDSketch(ms.Alpha)
	case w.cfg.PosReal[slot] == "paged" && w.cfg.NegReal[slot] == "paged":
		sk, err = ddsketch.NewDefaultDDSketch(ms.Alpha)
	default:
		return nil
	}
	if err != nil {
		panic("preset constructor refused alpha: " + err.Error())
	}
	return sk
}

func newSketchWorld(cfg *SketchCfg) *sketchWorld {
	w := &sketchWorld{cfg: cfg}
	for i := range cfg.Init {
		w.sk = append(w.sk, w.newSketch(i))
	}
	return w
}

func errClassOf(err error) string {
	switch {
	case err == nil:
		return ""
	case errors.Is(err, ddsketch.ErrUntrackableNaN):
		return "NaN"
	case errors.Is(err, ddsketch.ErrUntrackableTooHigh):
		return "TooHigh"
	case errors.Is(err, ddsketch.ErrUntrackableTooLow):
		return "TooLow"
	case errors.Is(err, ddsketch.ErrNegativeCount):
		return "NegCount"
	}
	return "other:" + err.Error()
}

// apply executes one event; returns the error class returned by the call and a
// problem visible in the call itself.
func (w *sketchWorld) apply(e *SkEvent) (errClass string, problem string) {
	cfg := w.cfg
	q := float64(cfg.Q)
	switch e.Op {
	case "AddN":
		r := w.sk[e.S-1]
		x, ok := tokenValue(cfg.conc(r.m), cfg.Keys, e.V)
		if !ok {
			return "", fmt.Sprintf("INFRA: token %d cannot be concretised", e.V)
		}
		for k := 0; k < e.Num; k++ {
			var err error
			if r.exact != nil {
				err = r.exact.Add(x)
			} else {
				err = r.plain.Add(x)
			}
			if err != nil {
				return errClassOf(err), ""
			}
		}
		return "", ""
	case "Add", "AddW":
		r := w.sk[e.S-1]
		x, ok := tokenValue(cfg.conc(r.m), cfg.Keys, e.V)
		if !ok {
			return "", fmt.Sprintf("INFRA: token %d cannot be concretised", e.V)
		}
		var err error
		if e.Op == "Add" {
			if r.exact != nil {
				err = r.exact.Add(x)
			} else {
				err = r.plain.Add(x)
			}
		} else {
			wt := float64(e.W) / q
			if r.exact != nil {
				err = r.exact.AddWithCount(x, wt)
			} else {
				err = r.plain.AddWithCount(x, wt)
			}
		}
		return errClassOf(err), ""
	case "Merge":
		t, s := w.sk[e.T-1], w.sk[e.S-1]
		var err error
		if t.exact != nil {
			err = t.exact.MergeWith(s.exact)
		} else {
			err = t.plain.MergeWith(s.plain)
		}
		if err != nil {
			return "Mapping", ""
		}
		return "", ""
	case "Copy":
		s := w.sk[e.S-1]
		if s.exact != nil {
			w.sk[e.T-1] = &realSketch{exact: s.exact.Copy(), m: s.m}
		} else {
			w.sk[e.T-1] = &realSketch{plain: s.plain.Copy(), m: s.m}
		}
		return "", ""
	case "Clear":
		s := w.sk[e.S-1]
		if s.exact != nil {
			s.exact.Clear()
		} else {
			s.plain.Clear()
		}
		return "", ""
	case "Reweight":
		s := w.sk[e.S-1]
		f := float64(e.Num) / float64(e.Den)
		var err error
		if s.exact != nil {
			err = s.exact.Reweight(f)
		} else {
			err = s.plain.Reweight(f)
		}
		if err != nil {
			return "Factor", ""
		}
		return "", ""
	case "EncDec", "DecodeNew":
		s := w.sk[e.S-1]
		omit := e.W == 1
		prefix := []byte{0xca, 0xfe, 0x01}
		b := append([]byte{}, prefix...)
		if s.exact != nil {
			s.exact.Encode(&b, omit)
		} else {
			s.plain.Encode(&b, omit)
		}
		if len(b) < 3 || b[0] != 0xca || b[1] != 0xfe || b[2] != 0x01 {
			return "", "Encode changed the bytes already in the caller's buffer"
		}
		data := b[3:]
		if e.Op == "EncDec" {
			t := w.sk[e.T-1]
			var err error
			if t.exact != nil {
				err = t.exact.DecodeAndMergeWith(data)
			} else {
				err = t.plain.DecodeAndMergeWith(data)
			}
			if err != nil {
				return "", "DecodeAndMergeWith of a valid encoding returned: " + err.Error()
			}
			return "", ""
		}
		var supplied mapping.IndexMapping
		if omit {
			supplied = cfg.conc(s.m).spec.build()
		}
		slot := e.T - 1
		if cfg.Init[slot].Variant == "exact" {
			d, err := ddsketch.DecodeDDSketchWithExactSummaryStatistics(data, w.provider(slot), supplied)
			if err != nil {
				return "", "DecodeDDSketchWithExactSummaryStatistics of a valid encoding returned: " + err.Error()
			}
			w.sk[slot] = &realSketch{exact: d, m: s.m}
		} else {
			d, err := ddsketch.DecodeDDSketch(data, w.provider(slot), supplied)
			if err != nil {
				return "", "DecodeDDSketch of a valid encoding returned: " + err.Error()
			}
			w.sk[slot] = &realSketch{plain: d, m: s.m}
		}
		if p := sameMapping(w.sk[slot].base().IndexMapping, s.base().IndexMapping); p != "" {
			return "", "decoded sketch: " + p
		}
		return "", ""
	case "ChangeMap":
		s := w.sk[e.S-1]
		slot := e.T - 1
		scale := cfg.Scales[e.W]
		nm := cfg.conc(e.V).spec.build()
		prov := w.provider(slot)
		if s.exact != nil {
			w.sk[slot] = &realSketch{exact: s.exact.ChangeMapping(nm, prov, scale), m: e.V}
		} else {
			w.sk[slot] = &realSketch{plain: s.plain.ChangeMapping(nm, prov(), prov(), scale), m: e.V}
		}
		return "", ""
	case "Concat":
		t := w.sk[e.T-1]
		omit := e.W == 1
		b := []byte{}
		for _, src := range []*realSketch{w.sk[e.S-1], w.sk[e.V-1]} {
			if src.exact != nil {
				src.exact.Encode(&b, omit)
			} else {
				src.plain.Encode(&b, omit)
			}
		}
		var err error
		if t.exact != nil {
			err = t.exact.DecodeAndMergeWith(b)
		} else {
			err = t.plain.DecodeAndMergeWith(b)
		}
		if err != nil {
			return "", "DecodeAndMergeWith of a concatenation of two valid encodings returned: " + err.Error()
		}
		return "", ""
	case "Proto":
		s := w.sk[e.S-1]
		var msg *sketchpb.DDSketch
		if cfg.Proto == 0 {
			bs, err := proto.Marshal(s.base().ToProto())
			if err != nil {
				return "", "proto.Marshal: " + err.Error()
			}
			msg = &sketchpb.DDSketch{}
			if err := proto.Unmarshal(bs, msg); err != nil {
				return "", "proto.Unmarshal: " + err.Error()
			}
		} else {
			var buf writerBuf
			s.base().EncodeProto(&buf)
			msg = &sketchpb.DDSketch{}
			if err := proto.Unmarshal(buf.b, msg); err != nil {
				return "", "bytes written by EncodeProto do not unmarshal: " + err.Error()
			}
		}
		slot := e.T - 1
		var d *ddsketch.DDSketch
		var err error
		in := cfg.Init[slot]
		if in.Pos.Kind == "exact" && in.Neg.Kind == "exact" && cfg.PosReal[slot] == "dense" && cfg.NegReal[slot] == "dense" {
			d, err = ddsketch.FromProto(msg) // the library's default target: dense stores
		} else {
			d, err = ddsketch.FromProtoWithStoreProvider(msg, w.provider(slot))
		}
		if err != nil {
			return "", "FromProto / FromProtoWithStoreProvider: " + err.Error()
		}
		w.sk[slot] = &realSketch{plain: d, m: s.m}
		if p := sameMapping(d.IndexMapping, s.base().IndexMapping); p != "" {
			return "", "sketch rebuilt from protobuf: " + p
		}
		return "", ""
	case "Read":
		w.readAll(w.sk[e.S-1])
		return "", ""
	}
	panic("unknown sketch op " + e.Op)
}

func sameMapping(got, want mapping.IndexMapping) string {
	if got == nil {
		return "has no mapping"
	}
	if fmt.Sprintf("%T", got) != fmt.Sprintf("%T", want) {
		return fmt.Sprintf("mapping kind %T differs from the source's %T", got, want)
	}
	if !got.Equals(want) || !want.Equals(got) {
		return "mapping is not Equal to the source's"
	}
	return ""
}

// readAll performs every read-only operation of a sketch (C14)
func (w *sketchWorld) readAll(r *realSketch) {
	qs := []float64{0, 0.25, 0.5, 0.75, 1}
	if r.exact != nil {
		r.exact.GetValuesAtQuantiles(qs)
		r.exact.GetValueAtQuantile(0.5)
		r.exact.GetMinValue()
		r.exact.GetMaxValue()
		r.exact.GetSum()
		r.exact.GetCount()
		n := 0
		r.exact.ForEach(func(float64, float64) bool { n++; return n >= 2 })
		var b []byte
		r.exact.Encode(&b, false)
		r.exact.Encode(&b, true)
		c := r.exact.Copy()
		c.Add(probeValue(r.base()))
		c.Clear()
	}
	s := r.base()
	s.GetValuesAtQuantiles(qs)
	s.GetValueAtQuantile(0.3)
	s.GetMinValue()
	s.GetMaxValue()
	s.GetSum()
	s.GetCount()
	s.IsEmpty()
	n := 0
	s.ForEach(func(float64, float64) bool { n++; return n >= 2 })
	_ = s.ToProto()
	var buf writerBuf
	s.EncodeProto(&buf)
	var b []byte
	s.Encode(&b, false)
	s.Encode(&b, true)
	for range s.GetPositiveValueStore().Bins() {
	}
	for range s.GetNegativeValueStore().Bins() {
	}
	c := s.Copy()
	c.Add(probeValue(s))
	c.Clear()
}

// probeValue is a value to add to a copy of s that is mutated and thrown away: one the sketch already holds (a dense
// store asked for 1.0 while its content sits at the far end of the indexable range allocates the whole span, 2.8 GB
// at alpha=1e-6).
func probeValue(s *ddsketch.DDSketch) float64 {
	if v, err := s.GetMaxValue(); err == nil {
		return v
	}
	return 1
}

// ---- comparison ------------------------------------------------------------

type skDiff struct {
	Aspect string
	What   string
	Actual interface{}
}

func storeBinsAsKeys(st store.Store, ke keyEmbedding, q float64) (map[int]float64, string) {
	got := map[int]float64{}
	problem := ""
	st.ForEach(func(index int, count float64) bool {
		if _, dup := got[index]; dup {
			problem = fmt.Sprintf("ForEach yields index %d twice", index)
		}
		got[index] = count * q
		return false
	})
	return got, problem
}

func compareSide(name string, st store.Store, pred pairList, ke keyEmbedding, conc *concretizer, q float64) string {
	got, p := storeBinsAsKeys(st, ke, q)
	if p != "" {
		return name + " store: " + p
	}
	if len(got) != len(pred) {
		return fmt.Sprintf("%s store holds %d bins %v, specification says %d %v (model keys)", name, len(got), got, len(pred), pred)
	}
	for _, b := range pred {
		if w, ok := got[ke.idxFor(conc, b[0])]; !ok || w != float64(b[1]) {
			return fmt.Sprintf("%s store: bin of model key %d (index %d) holds %v quanta, specification says %d; store=%v", name, b[0], ke.idxFor(conc, b[0]), got[ke.idxFor(conc, b[0])], b[1], got)
		}
	}
	return ""
}

func binOfRank(x int) (side, key int) {
	if x == 0 {
		return 0, 0
	}
	if x > 0 {
		return 1, x - 1
	}
	return -1, -x - 1
}

// compareSketch checks one real sketch against the prediction for the enabled aspects.
func (w *sketchWorld) compareSketch(r *realSketch, p *SkObs) *skDiff {
	if p.Opq {
		return nil // result of a mapping change: bin-level content is not predicted (checked at the event, against the source)
	}
	cfg := w.cfg
	q := float64(cfg.Q)
	asp := cfg.Aspects
	conc := cfg.conc(p.M)
	ke := cfg.Keys
	alpha := conc.m.RelativeAccuracy()
	base := r.base()

	if asp["bins"] {
		if (r.exact != nil) != (p.Variant == "exact") {
			return &skDiff{"bins", "INFRA: variant mismatch between harness and model", nil}
		}
		if d := compareSide("positive", base.GetPositiveValueStore(), p.Pos, ke, conc, q); d != "" {
			return &skDiff{"bins", d, nil}
		}
		if d := compareSide("negative", base.GetNegativeValueStore(), p.Neg, ke, conc, q); d != "" {
			return &skDiff{"bins", d, nil}
		}
		if base.GetZeroCount()*q != float64(p.Zero) {
			return &skDiff{"bins", fmt.Sprintf("zero weight %v, specification says %v", base.GetZeroCount(), float64(p.Zero)/q), nil}
		}
		if base.GetCount()*q != float64(p.Count) {
			return &skDiff{"bins", fmt.Sprintf("GetCount %v, specification says %v", base.GetCount(), float64(p.Count)/q), nil}
		}
		if base.IsEmpty() != p.Empty {
			return &skDiff{"bins", fmt.Sprintf("IsEmpty %v, specification says %v", base.IsEmpty(), p.Empty), nil}
		}
	}

	// quantile answers
	getQ := func(qq float64) (float64, error) {
		if r.exact != nil {
			return r.exact.GetValueAtQuantile(qq)
		}
		return r.plain.GetValueAtQuantile(qq)
	}
	var answers []float64
	if asp["quantile"] || asp["coherence"] || asp["exact"] {
		for _, qp := range p.Qs {
			qq := float64(qp.A) / float64(cfg.QDen)
			y, err := getQ(qq)
			if err != nil {
				if asp["quantile"] || asp["coherence"] {
					return &skDiff{"quantile", fmt.Sprintf("GetValueAtQuantile(%v) on a non-empty sketch returned error %v", qq, err), nil}
				}
				continue
			}
			answers = append(answers, y)
			if !asp["quantile"] {
				continue
			}
			ok := false
			var allowed interface{}
			if p.Exact {
				toks := qp.Toks
				if qp.Unit && asp["strict"] {
					toks = qp.Strict
				}
				allowed = toks
				for _, v := range toks {
					if yMatchesToken(conc, ke, y, v) {
						ok = true
						break
					}
				}
			} else {
				allowed = qp.Bins
				for _, x := range qp.Bins {
					s, k := binOfRank(x)
					if yMatchesBin(conc, ke, y, s, k) {
						ok = true
						break
					}
				}
			}
			if !ok {
				return &skDiff{"quantile", fmt.Sprintf("GetValueAtQuantile(%v)=%v is not within relative accuracy %.3g of any value the property allows at that rank (allowed %s: %v, alpha=%v)",
					qq, y, alpha, map[bool]string{true: "tokens", false: "bin ranks"}[p.Exact], allowed, alpha), y}
			}
		}
	}

	if asp["quantile"] && !p.Empty && len(answers) == len(p.Qs) && len(answers) > 0 {
		// the batch query is the same query: its answers are judged like the single ones (they must be the same values)
		qs := make([]float64, len(p.Qs))
		for i, qp := range p.Qs {
			qs[i] = float64(qp.A) / float64(cfg.QDen)
		}
		var batch []float64
		var err error
		if r.exact != nil {
			batch, err = r.exact.GetValuesAtQuantiles(qs)
		} else {
			batch, err = r.plain.GetValuesAtQuantiles(qs)
		}
		if err != nil || len(batch) != len(qs) {
			return &skDiff{"quantile", fmt.Sprintf("GetValuesAtQuantiles(%v) on a non-empty sketch failed (%v) or returned %d answers", qs, err, len(batch)), nil}
		}
		for i := range batch {
			if batch[i] != answers[i] && !(batch[i] == 0 && answers[i] == 0) {
				return &skDiff{"quantile", fmt.Sprintf("GetValuesAtQuantiles answers %v for q=%v where GetValueAtQuantile answers %v (a value the property allows at that rank)", batch[i], qs[i], answers[i]), batch[i]}
			}
		}
	}
	if asp["minmax"] && !p.Empty {
		// C11: the answer lies between the reported minimum and maximum
		mn, e1 := base.GetMinValue()
		mx, e2 := base.GetMaxValue()
		if r.exact != nil {
			mn, e1 = r.exact.GetMinValue()
			mx, e2 = r.exact.GetMaxValue()
		}
		for i, y := range answers {
			if e1 != nil || e2 != nil || y < mn || y > mx {
				return &skDiff{"quantile", fmt.Sprintf("quantile answer %v (q=%d/%d) is not between the reported minimum %v and maximum %v", y, i, cfg.QDen, mn, mx), y}
			}
		}
	}
	if asp["coherence"] {
		if d := w.checkCoherence(r, p, answers); d != nil {
			return d
		}
	}
	if asp["refuse"] {
		if d := w.checkRefusals(r, p); d != nil {
			return d
		}
	}
	if asp["exact"] && r.exact != nil {
		if d := w.checkExactStats(r, p, answers); d != nil {
			return d
		}
	}
	if asp["proto"] {
		var buf writerBuf
		base.EncodeProto(&buf)
		msg := &sketchpb.DDSketch{}
		if err := proto.Unmarshal(buf.b, msg); err != nil {
			return &skDiff{"proto", "bytes written by EncodeProto do not unmarshal: " + err.Error(), nil}
		}
		if d := protoSketchDiff(msg, base.ToProto()); d != "" {
			return &skDiff{"proto", "EncodeProto bytes unmarshal to a message different from ToProto(): " + d, nil}
		}
	}
	return nil
}

// protoSketchDiff compares two sketch messages by content (sparse and contiguous forms add up)
func protoSketchDiff(a, b *sketchpb.DDSketch) string {
	if (a.Mapping == nil) != (b.Mapping == nil) {
		return "mapping presence differs"
	}
	if a.Mapping != nil && (a.Mapping.Gamma != b.Mapping.Gamma || a.Mapping.IndexOffset != b.Mapping.IndexOffset || a.Mapping.Interpolation != b.Mapping.Interpolation) {
		return fmt.Sprintf("mapping %v vs %v", a.Mapping, b.Mapping)
	}
	if a.ZeroCount != b.ZeroCount {
		return fmt.Sprintf("zeroCount %v vs %v", a.ZeroCount, b.ZeroCount)
	}
	if d := protoStoreDiff(a.PositiveValues, b.PositiveValues); d != "" {
		return "positiveValues: " + d
	}
	if d := protoStoreDiff(a.NegativeValues, b.NegativeValues); d != "" {
		return "negativeValues: " + d
	}
	return ""
}

func protoStoreContent(s *sketchpb.Store) map[int]float64 {
	m := map[int]float64{}
	if s == nil {
		return m
	}
	for k, v := range s.BinCounts {
		if v != 0 {
			m[int(k)] += v
		}
	}
	for i, v := range s.ContiguousBinCounts {
		if v != 0 {
			m[i+int(s.ContiguousBinIndexOffset)] += v
		}
	}
	return m
}

func protoStoreDiff(a, b *sketchpb.Store) string {
	ma, mb := protoStoreContent(a), protoStoreContent(b)
	if len(ma) != len(mb) {
		return fmt.Sprintf("%d vs %d non-empty bins", len(ma), len(mb))
	}
	for k, v := range ma {
		if math.Float64bits(mb[k]) != math.Float64bits(v) {
			return fmt.Sprintf("bin %d: %v vs %v", k, v, mb[k])
		}
	}
	return ""
}

// C12
func (w *sketchWorld) checkCoherence(r *realSketch, p *SkObs, answers []float64) *skDiff {
	cfg := w.cfg
	q := float64(cfg.Q)
	conc := cfg.conc(p.M)
	ke := cfg.Keys
	alpha := conc.m.RelativeAccuracy()
	s := r.base() // C12 is about the plain queries; the exact variant's own statistics are C10
	if s.GetCount()*q != float64(p.Count) || s.IsEmpty() != p.Empty || s.GetZeroCount()*q != float64(p.Zero) {
		return &skDiff{"coherence", fmt.Sprintf("count=%v empty=%v zero=%v, specification says count=%v empty=%v zero=%v", s.GetCount(), s.IsEmpty(), s.GetZeroCount(),
			float64(p.Count)/q, p.Empty, float64(p.Zero)/q), nil}
	}
	mn, errMin := s.GetMinValue()
	mx, errMax := s.GetMaxValue()
	if p.Empty {
		if errMin == nil || errMax == nil {
			return &skDiff{"coherence", "GetMinValue/GetMaxValue of an empty sketch did not return an error", nil}
		}
		return nil
	}
	if errMin != nil || errMax != nil {
		return &skDiff{"coherence", fmt.Sprintf("GetMinValue/GetMaxValue of a non-empty sketch returned an error (%v, %v)", errMin, errMax), nil}
	}
	// extremes: within alpha of the true extreme (token level when content is exact; the clamped bin otherwise)
	okMin, okMax := false, false
	if p.Exact {
		okMin, okMax = yMatchesToken(conc, ke, mn, p.MinTok), yMatchesToken(conc, ke, mx, p.MaxTok)
	} else {
		okMin = yMatchesBin(conc, ke, mn, p.MinOper[0], p.MinOper[1])
		okMax = yMatchesBin(conc, ke, mx, p.MaxOper[0], p.MaxOper[1])
	}
	if !okMin {
		return &skDiff{"coherence", fmt.Sprintf("GetMinValue=%v is not within alpha of the true minimum (token %d, bin %v)", mn, p.MinTok, p.MinOper), mn}
	}
	if !okMax {
		return &skDiff{"coherence", fmt.Sprintf("GetMaxValue=%v is not within alpha of the true maximum (token %d, bin %v)", mx, p.MaxTok, p.MaxOper), mx}
	}
	// plain answers (for an exact-variant object query the embedded plain sketch)
	plain := answers
	if r.exact != nil {
		plain = nil
		for _, qp := range p.Qs {
			y, err := s.GetValueAtQuantile(float64(qp.A) / float64(cfg.QDen))
			if err != nil {
				return &skDiff{"coherence", "GetValueAtQuantile on a non-empty sketch returned an error", nil}
			}
			plain = append(plain, y)
		}
	}
	for i := range plain {
		if i > 0 && plain[i] < plain[i-1] {
			return &skDiff{"coherence", fmt.Sprintf("quantile answers decrease: q=%d/%d -> %v after %v", i, cfg.QDen, plain[i], plain[i-1]), plain}
		}
		if plain[i] < mn || plain[i] > mx {
			return &skDiff{"coherence", fmt.Sprintf("quantile answer %v (q=%d/%d) outside the reported [min,max]=[%v,%v]", plain[i], i, cfg.QDen, mn, mx), plain}
		}
	}
	// batch == singles
	qs := make([]float64, len(p.Qs))
	for i, qp := range p.Qs {
		qs[i] = float64(qp.A) / float64(cfg.QDen)
	}
	batch, err := s.GetValuesAtQuantiles(qs)
	if err != nil || len(batch) != len(plain) {
		return &skDiff{"coherence", fmt.Sprintf("GetValuesAtQuantiles failed (%v) or returned %d answers for %d quantiles", err, len(batch), len(qs)), nil}
	}
	for i := range batch {
		if math.Float64bits(batch[i]) != math.Float64bits(plain[i]) {
			return &skDiff{"coherence", fmt.Sprintf("GetValuesAtQuantiles[%d]=%v differs from GetValueAtQuantile=%v", i, batch[i], plain[i]), nil}
		}
	}
	// iteration: every non-empty bin once, positive weights, total = count
	nb := len(p.Pos) + len(p.Neg)
	if p.Zero > 0 {
		nb++
	}
	calls, tot := 0, 0.0
	bad := ""
	s.ForEach(func(v, c float64) bool {
		calls++
		tot += c
		if !(c > 0) {
			bad = fmt.Sprintf("ForEach yields value %v with non-positive weight %v", v, c)
		}
		return false
	})
	if bad != "" {
		return &skDiff{"coherence", bad, nil}
	}
	if calls != nb || tot*q != float64(p.Count) {
		return &skDiff{"coherence", fmt.Sprintf("ForEach made %d callbacks with total weight %v, specification says %d bins and total %v", calls, tot, nb, float64(p.Count)/q), nil}
	}
	for _, k := range []int{1, 2, nb} {
		calls = 0
		s.ForEach(func(v, c float64) bool { calls++; return calls >= k })
		want := k
		if nb < k {
			want = nb
		}
		if calls != want {
			return &skDiff{"coherence", fmt.Sprintf("ForEach asked to stop after %d callbacks made %d (sketch has %d bins)", k, calls, nb), nil}
		}
	}
	// approximate sum: within alpha of the true sum for same-signed data
	if p.Exact && len(p.Bag) > 0 {
		allPos, allNeg := true, true
		for _, b := range p.Bag {
			if b[0] < 0 && !isZeroClass(b[0]) {
				allPos = false
			}
			if b[0] > 0 && !isZeroClass(b[0]) {
				allNeg = false
			}
		}
		if allPos || allNeg {
			trueSum := new(big.Float).SetPrec(200)
			for _, b := range p.Bag {
				if isZeroClass(b[0]) {
					continue // counted as 0 by the sketch; sub-minimum magnitudes are below any tolerance
				}
				x, _ := tokenValue(conc, ke, b[0])
				t := new(big.Float).SetPrec(200).SetFloat64(x)
				t.Mul(t, new(big.Float).SetPrec(200).SetFloat64(float64(b[1])/q))
				trueSum.Add(trueSum, t)
			}
			ts, _ := trueSum.Float64()
			got := s.GetSum()
			// (sums whose magnitude approaches MaxFloat64 may overflow in either computation: not compared)
			if math.Abs(ts) < math.MaxFloat64/4 && math.Abs(got-ts) > (alpha+1e-12)*math.Abs(ts) {
				return &skDiff{"coherence", fmt.Sprintf("GetSum=%v, true sum of same-signed data %v: relative error above alpha=%v", got, ts, alpha), got}
			}
		}
	}
	return nil
}

// C13: per-state refusals
func (w *sketchWorld) checkRefusals(r *realSketch, p *SkObs) *skDiff {
	getQ := func(qq float64) (float64, error) {
		if r.exact != nil {
			return r.exact.GetValueAtQuantile(qq)
		}
		return r.plain.GetValueAtQuantile(qq)
	}
	bad := map[string]float64{"NaN": math.NaN(), "just below 0": -math.SmallestNonzeroFloat64, "just above 1": math.Nextafter(1, 2),
		"-1": -1, "2": 2, "+Inf": math.Inf(1), "-Inf": math.Inf(-1)}
	names := make([]string, 0, len(bad))
	for k := range bad {
		names = append(names, k)
	}
	sort.Strings(names)
	for _, n := range names {
		if _, err := getQ(bad[n]); err == nil {
			return &skDiff{"refuse", fmt.Sprintf("GetValueAtQuantile(%s) was accepted (no error)", n), nil}
		}
		var err error
		if r.exact != nil {
			_, err = r.exact.GetValuesAtQuantiles([]float64{0.5, bad[n]})
		} else {
			_, err = r.plain.GetValuesAtQuantiles([]float64{0.5, bad[n]})
		}
		if err == nil {
			return &skDiff{"refuse", fmt.Sprintf("GetValuesAtQuantiles([0.5, %s]) was accepted (no error)", n), nil}
		}
	}
	for _, qq := range []float64{0, 0.5, 1} {
		_, err := getQ(qq)
		if p.Empty && err == nil {
			return &skDiff{"refuse", fmt.Sprintf("GetValueAtQuantile(%v) on an empty sketch was accepted", qq), nil}
		}
		if !p.Empty && err != nil {
			return &skDiff{"refuse", fmt.Sprintf("GetValueAtQuantile(%v) on a non-empty sketch returned %v", qq, err), nil}
		}
	}
	return nil
}

// noteSumOverflow keeps realSketch.sumOverflowed: float64 cannot carry a total of |value*weight| near MaxFloat64, and once
// a compensated sum has overflowed no later Reweight, merge or copy brings it back (only Clear does). The property asks
// for an error of a few ulps of that total, which presupposes the total is representable.
func (w *sketchWorld) noteSumOverflow(e *SkEvent, preds []SkObs) {
	recv := e.S
	two := false
	switch e.Op {
	case "Merge", "Copy", "EncDec", "DecodeNew", "Proto", "Concat", "ChangeMap":
		recv, two = e.T, true
	case "Read":
		return
	}
	if recv < 1 || recv > len(w.sk) {
		return
	}
	r := w.sk[recv-1]
	switch {
	case e.Op == "Clear":
		r.sumOverflowed = false
	case two && e.S >= 1 && e.S <= len(w.sk) && e.S != recv:
		src := w.sk[e.S-1].sumOverflowed
		if e.Op == "Copy" || e.Op == "DecodeNew" || e.Op == "ChangeMap" || e.Op == "Proto" {
			r.sumOverflowed = src
		} else {
			r.sumOverflowed = r.sumOverflowed || src
		}
	}
	p := &preds[recv-1]
	conc := w.cfg.conc(p.M)
	q := float64(w.cfg.Q)
	abs := 0.0
	for _, b := range p.Bag {
		x, _ := tokenValue(conc, w.cfg.Keys, b[0])
		abs += math.Abs(x) * float64(b[1]) / q
	}
	if !(abs < math.MaxFloat64/4) {
		r.sumOverflowed = true
	}
}

// C10
func (w *sketchWorld) checkExactStats(r *realSketch, p *SkObs, answers []float64) *skDiff {
	cfg := w.cfg
	q := float64(cfg.Q)
	conc := cfg.conc(p.M)
	ke := cfg.Keys
	ex := r.exact
	if ex.GetCount()*q != float64(p.Xcnt) {
		return &skDiff{"exact", fmt.Sprintf("exact count %v, specification says %v", ex.GetCount(), float64(p.Xcnt)/q), nil}
	}
	if ex.IsEmpty() != (p.Xcnt == 0) {
		return &skDiff{"exact", fmt.Sprintf("IsEmpty=%v but absorbed weight is %v", ex.IsEmpty(), float64(p.Xcnt)/q), nil}
	}
	mn, errMin := ex.GetMinValue()
	mx, errMax := ex.GetMaxValue()
	if p.Xcnt == 0 {
		if errMin == nil || errMax == nil {
			return &skDiff{"exact", "GetMinValue/GetMaxValue of an empty sketch did not return an error", nil}
		}
		if gs := ex.GetSum(); gs != 0 {
			// nothing absorbed: the total of |value*weight| is 0, so the sum must be exactly 0
			return &skDiff{"exact", fmt.Sprintf("exact sum of a sketch that holds nothing is %v", gs), gs}
		}
		return nil
	}
	if errMin != nil || errMax != nil {
		return &skDiff{"exact", fmt.Sprintf("GetMinValue/GetMaxValue on a non-empty sketch returned an error (%v,%v)", errMin, errMax), nil}
	}
	wantMin, _ := tokenValue(conc, ke, p.Xmin)
	wantMax, _ := tokenValue(conc, ke, p.Xmax)
	if mn != wantMin {
		return &skDiff{"exact", fmt.Sprintf("exact minimum %v, true minimum of the absorbed values %v (token %d)", mn, wantMin, p.Xmin), mn}
	}
	if mx != wantMax {
		return &skDiff{"exact", fmt.Sprintf("exact maximum %v, true maximum of the absorbed values %v (token %d)", mx, wantMax, p.Xmax), mx}
	}
	// sum: within a few ulps of sum |v*w|
	exactSum := new(big.Float).SetPrec(400)
	absSum := new(big.Float).SetPrec(400)
	for _, b := range p.Bag {
		x, _ := tokenValue(conc, ke, b[0])
		t := new(big.Float).SetPrec(400).SetFloat64(x)
		t.Mul(t, new(big.Float).SetPrec(400).SetFloat64(float64(b[1])/q))
		exactSum.Add(exactSum, t)
		absSum.Add(absSum, t.Abs(t))
	}
	// (sums whose terms approach MaxFloat64 overflow in float64 arithmetic: not compared)
	if as, _ := absSum.Float64(); as < math.MaxFloat64/4 && !r.sumOverflowed {
		gs := ex.GetSum()
		if math.IsNaN(gs) || math.IsInf(gs, 0) {
			return &skDiff{"exact", fmt.Sprintf("exact sum is %v although the absorbed values are finite and far from overflow", gs), gs}
		}
		got := new(big.Float).SetPrec(400).SetFloat64(gs)
		diff := new(big.Float).SetPrec(400).Sub(got, exactSum)
		diff.Abs(diff)
		bound := new(big.Float).SetPrec(400).Mul(absSum, big.NewFloat(16*math.Pow(2, -53)))
		if diff.Cmp(bound) > 0 {
			es, _ := exactSum.Float64()
			return &skDiff{"exact", fmt.Sprintf("exact sum %v differs from the true sum %v of the absorbed values by more than 16 ulps of sum|v*w|", gs, es), gs}
		}
	}
	// quantiles lie within [min,max] and otherwise equal the plain sketch's answers
	for i, qp := range p.Qs {
		if i >= len(answers) {
			break
		}
		qq := float64(qp.A) / float64(cfg.QDen)
		py, err := ex.DDSketch.GetValueAtQuantile(qq)
		if err != nil {
			continue
		}
		want := py
		if want < mn {
			want = mn
		}
		if want > mx {
			want = mx
		}
		if answers[i] != want {
			return &skDiff{"exact", fmt.Sprintf("exact-variant quantile(%v)=%v, expected the plain answer %v clamped to [%v,%v]", qq, answers[i], py, mn, mx), answers[i]}
		}
	}
	batchQs := []float64{0, 0.5, 1}
	bv, err := ex.GetValuesAtQuantiles(batchQs)
	if err != nil || len(bv) != 3 {
		return &skDiff{"exact", "GetValuesAtQuantiles failed on a non-empty exact sketch", nil}
	}
	for i, qq := range batchQs {
		y, _ := ex.GetValueAtQuantile(qq)
		if y != bv[i] {
			return &skDiff{"exact", fmt.Sprintf("exact-variant batch quantile(%v)=%v differs from the single query %v", qq, bv[i], y), nil}
		}
	}
	return nil
}

// ---- replay ----------------------------------------------------------------

type SkMismatch struct {
	Step   int
	Slot   int
	Aspect string
	What   string
	Pred   *SkObs
	Actual interface{}
	Tags   map[string]string
}

func replaySketch(beh []SkStep, cfg *SketchCfg) (mm *SkMismatch) {
	w := newSketchWorld(cfg)
	asp := cfg.Aspects
	var wB *sketchWorld // second execution of the real code for the differential aspects
	if asp["pure"] || asp["clear"] {
		wB = newSketchWorld(cfg)
	}
	modelCompare := asp["bins"] || asp["quantile"] || asp["coherence"] || asp["refuse"] || asp["exact"] || asp["proto"] || asp["minmax"]
	step := 0
	var cur *SkEvent
	defer func() {
		if r := recover(); r != nil {
			mm = &SkMismatch{Step: step, Aspect: "panic", What: fmt.Sprintf("panic: %v", r), Tags: map[string]string{"outcome": "panic", "op": cur.Op}}
		}
	}()
	for i := range beh {
		step = i + 1
		cur = &beh[i].Ev
		tags := map[string]string{"outcome": "mismatch", "op": cur.Op, "v": fmt.Sprint(cur.V), "w": fmt.Sprint(cur.W)}
		if cur.S >= 1 && cur.S <= len(w.sk) {
			tags["variant"] = map[bool]string{true: "exact", false: "plain"}[w.sk[cur.S-1].exact != nil]
		}
		recv := cur.S
		switch cur.Op {
		case "Merge", "Copy", "EncDec", "DecodeNew", "Proto", "Concat", "ChangeMap":
			recv = cur.T
		}
		var before []*skSnap
		isDecode := cur.Op == "EncDec" || cur.Op == "DecodeNew" || cur.Op == "Proto" || cur.Op == "Concat"
		if asp["pure"] || (asp["reweight"] && cur.Op == "Reweight") || (asp["refuse"] && beh[i].Err != "") || (asp["decode"] && isDecode) || (cur.Op == "ChangeMap" && (asp["cm-stats"] || asp["cm"])) {
			for _, r := range w.sk {
				before = append(before, snapshot(r))
			}
		}
		ec, problem := w.apply(cur)
		if strings.HasPrefix(problem, "INFRA") {
			infraFail("%s", problem)
		}
		if problem != "" {
			return &SkMismatch{Step: step, Aspect: "call", What: problem, Tags: tags}
		}
		if ec == "" {
			w.noteSumOverflow(cur, beh[i].Pred)
		}
		// error class
		want := beh[i].Err
		okErr := ec == want
		if !okErr && want != "" && len(beh[i].Errs) > 1 {
			for _, e := range beh[i].Errs {
				if e == ec {
					okErr = true
				}
			}
		}
		if !okErr && (want == "Mapping" || want == "Factor") && ec != "" {
			okErr = true
		}
		if !okErr {
			tags["aspect"] = "refuse"
			tags["wantErr"] = want
			tags["gotErr"] = ec
			if want == "" {
				return &SkMismatch{Step: step, Aspect: "refuse", What: fmt.Sprintf("%s(%+v) must be accepted but returned error class %q", cur.Op, *cur, ec), Tags: tags}
			}
			if asp["refuse"] {
				return &SkMismatch{Step: step, Aspect: "refuse", What: fmt.Sprintf("%s(%+v) must be refused with %q but returned %q", cur.Op, *cur, want, ec), Tags: tags}
			}
		}
		// slots holding non-dyadic weights (results of mapping changes) are compared on the reduced snapshot
		opq := func(s int) bool {
			if beh[i].Pred[s].Opq {
				return true
			}
			return i > 0 && beh[i-1].Pred[s].Opq
		}
		// ---- differential aspects (real vs real) ----
		if asp["refuse"] && want != "" {
			// C13: a refused call leaves every observable aspect of every sketch as it was
			for s := range w.sk {
				if after := snapshot(w.sk[s]); !snapEqual(before[s], after) {
					tags["aspect"] = "refuse"
					return &SkMismatch{Step: step, Slot: s + 1, Aspect: "refuse", What: fmt.Sprintf("the refused call %s(%+v) changed slot %d:\nbefore: %s\nafter:  %s", cur.Op, *cur, s+1, before[s], after), Tags: tags}
				}
			}
		}
		if asp["pure"] {
			// C14: only the receiver of an event may change; a Read changes nothing; a copy answers like its original
			for s := range w.sk {
				if (s+1 != recv || cur.Op == "Read" || want != "") && s < len(before) {
					if after := snapshot(w.sk[s]); !snapEqualMode(before[s], after, opq(s)) {
						tags["aspect"] = "pure"
						return &SkMismatch{Step: step, Slot: s + 1, Aspect: "pure", What: fmt.Sprintf("slot %d is not the receiver of %s(%+v) but its answers changed:\nbefore: %s\nafter:  %s", s+1, cur.Op, *cur, before[s], after), Tags: tags}
					}
				}
			}
			if cur.Op == "Copy" {
				a, b := snapshot(w.sk[cur.S-1]), snapshot(w.sk[cur.T-1])
				if !snapEqualMode(a, b, opq(cur.S-1) || opq(cur.T-1)) {
					tags["aspect"] = "pure"
					return &SkMismatch{Step: step, Slot: cur.T, Aspect: "pure", What: fmt.Sprintf("a fresh copy answers differently from its original:\noriginal: %s\ncopy:     %s", a, b), Tags: tags}
				}
			}
			// second world: same mutations, no reads at all; compared at the end
			if cur.Op != "Read" {
				wB.apply(cur)
			}
			// and a FRESH execution of the prefix without any read, compared right now: a read that leaves hidden
			// state wrong is seen at the step where it first matters, even if a later mutation would heal it
			if len(beh) <= 6 || i%5 == 4 || i == len(beh)-2 {
				wF := newSketchWorld(cfg)
				for j := 0; j <= i; j++ {
					if beh[j].Ev.Op != "Read" {
						wF.apply(&beh[j].Ev)
					}
				}
				for s := range w.sk {
					a, b := snapshot(w.sk[s]), snapshot(wF.sk[s])
					if !snapEqualMode(a, b, opq(s)) {
						tags["aspect"] = "pure"
						return &SkMismatch{Step: step, Slot: s + 1, Aspect: "pure", What: fmt.Sprintf("slot %d: after the same mutations, an execution interleaved with read-only calls answers differently from one without any:\nwith reads:    %s\nwithout reads: %s", s+1, a, b), Tags: tags}
					}
				}
			}
		}
		if asp["clear"] {
			// C15: second world replaces the cleared object by a brand-new one
			if cur.Op == "Clear" {
				wB.sk[cur.S-1] = wB.freshLike(wB.sk[cur.S-1])
			} else {
				wB.apply(cur)
			}
			for s := range w.sk {
				a, b := snapshot(w.sk[s]), snapshot(wB.sk[s])
				if !snapEqual(a, b) {
					tags["aspect"] = "clear"
					return &SkMismatch{Step: step, Slot: s + 1, Aspect: "clear", What: fmt.Sprintf("slot %d: an object reused after Clear answers differently from a brand-new object given the same later history:\nreused: %s\nnew:    %s", s+1, a, b), Tags: tags}
				}
			}
		}
		if asp["decode"] && isDecode {
			// C06/C09: decoding s's encoding into t is merging: per-index sums of the two real contents
			// (bit for bit when t starts empty); the source keeps its snapshot
			srcs := []int{cur.S}
			if cur.Op == "Concat" {
				srcs = append(srcs, cur.V)
			}
			for _, si := range srcs {
				if after := snapshot(w.sk[si-1]); !snapEqual(before[si-1], after) {
					tags["aspect"] = "decode"
					return &SkMismatch{Step: step, Slot: si, Aspect: "decode", What: fmt.Sprintf("encoding slot %d changed its answers:\nbefore: %s\nafter:  %s", si, before[si-1], after), Tags: tags}
				}
			}
			tk := store.VerifLayout(w.sk[recv-1].base().GetPositiveValueStore()).Kind
			nk := store.VerifLayout(w.sk[recv-1].base().GetNegativeValueStore()).Kind
			if tk != "low" && tk != "high" && nk != "low" && nk != "high" {
				fresh := cur.Op == "DecodeNew" || cur.Op == "Proto"
				if d := decodeIsMerge(before[recv-1], before, srcs, snapshot(w.sk[recv-1]), fresh, cur.Op != "Proto"); d != "" {
					tags["aspect"] = "decode"
					return &SkMismatch{Step: step, Slot: recv, Aspect: "decode", What: fmt.Sprintf("%s(%+v): %s", cur.Op, *cur, d), Tags: tags}
				}
			} else if d := w.compareSketch(w.sk[recv-1], &beh[i].Pred[recv-1]); d != nil {
				// bounded target: the content is the fold the specification predicts (C05 clamping)
				tags["aspect"] = "decode"
				return &SkMismatch{Step: step, Slot: recv, Aspect: "decode", What: fmt.Sprintf("%s into bounded stores: %s", cur.Op, d.What), Pred: &beh[i].Pred[recv-1], Tags: tags}
			}
		}
		if cur.Op == "ChangeMap" && (asp["cm-stats"] || asp["cm"]) {
			var srcPred *SkObs
			if i > 0 {
				srcPred = &beh[i-1].Pred[cur.S-1]
			}
			if d := w.checkChangeMap(cur, before[cur.S-1], srcPred, asp); d != "" {
				tags["aspect"] = "cm"
				return &SkMismatch{Step: step, Slot: recv, Aspect: "cm", What: fmt.Sprintf("ChangeMapping(%+v): %s", *cur, d), Tags: tags}
			}
		}
		if asp["reweight"] && cur.Op == "Reweight" && want == "" && cur.Num != cur.Den {
			if d := scaledSnapDiff(before[cur.S-1], snapshot(w.sk[cur.S-1]), float64(cur.Num)/float64(cur.Den)); d != "" {
				tags["aspect"] = "reweight"
				return &SkMismatch{Step: step, Slot: cur.S, Aspect: "reweight", What: d, Tags: tags}
			}
		}
		if asp["twin-merge"] && (cur.Op == "Merge" || i == len(beh)-1) && want == "" {
			for s := range w.sk {
				if cur.Op == "Merge" && s+1 != recv && i != len(beh)-1 {
					continue
				}
				tw, p := w.twinFromBag(w.sk[s], &beh[i].Pred[s])
				if p != "" {
					infraFail("%s", p)
				}
				if d := mergeSnapDiff(snapshot(w.sk[s]), snapshot(tw)); d != "" {
					tags["aspect"] = "twin-merge"
					return &SkMismatch{Step: step, Slot: s + 1, Aspect: "twin-merge", What: fmt.Sprintf("slot %d after %s differs from a single sketch fed the absorbed multiset %v:\n%s", s+1, cur.Op, beh[i].Pred[s].Bag, d), Tags: tags}
				}
			}
		}
		if !modelCompare || (cfg.Mode == "final" && i != len(beh)-1) {
			continue
		}
		for s := range w.sk {
			if d := w.compareSketch(w.sk[s], &beh[i].Pred[s]); d != nil {
				if strings.HasPrefix(d.What, "INFRA") {
					infraFail("%s", d.What)
				}
				tags["aspect"] = d.Aspect
				return &SkMismatch{Step: step, Slot: s + 1, Aspect: d.Aspect, What: fmt.Sprintf("slot %d: %s", s+1, d.What), Pred: &beh[i].Pred[s], Actual: d.Actual, Tags: tags}
			}
		}
	}
	if asp["pure"] {
		for s := range w.sk {
			a, b := snapshot(w.sk[s]), snapshot(wB.sk[s])
			if !snapEqualMode(a, b, len(beh) > 0 && beh[len(beh)-1].Pred[s].Opq) {
				return &SkMismatch{Step: step, Slot: s + 1, Aspect: "pure", What: fmt.Sprintf("slot %d: the same mutations with and without interleaved read-only calls lead to different answers:\nwith reads:    %s\nwithout reads: %s", s+1, a, b),
					Tags: map[string]string{"outcome": "mismatch", "aspect": "pure"}}
			}
		}
	}
	return nil
}
