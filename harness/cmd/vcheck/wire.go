package main

// Wire pipeline (Wire.tla): TLC enumerates well-formed streams of documented
// blocks; the harness serialises them with wirefmt, cuts the bytes at every
// offset and runs the real decoders (C07 consumer side, C08). Producer side:
// real encodings are tokenised with wirefmt and validated by TLC (Trace_Wire).

import (
	"bufio"
	"encoding/json"
	"fmt"
	"math"
	"math/rand"
	"os"
	"path/filepath"
	"sync"
	"sync/atomic"
	"time"

	"github.com/DataDog/sketches-go/ddsketch"
	"github.com/DataDog/sketches-go/ddsketch/mapping"
	"github.com/DataDog/sketches-go/ddsketch/stat"
	"github.com/DataDog/sketches-go/ddsketch/store"
)

type WirePredR struct {
	Err  string   `json:"err"`
	M    int      `json:"m"`
	Pos  pairList `json:"pos"`
	Neg  pairList `json:"neg"`
	Zero int      `json:"zero"`
	Xcnt int      `json:"xcnt"`
}

type WirePred struct {
	K      int       `json:"k"`
	Plain  WirePredR `json:"plain"`
	Plain1 WirePredR `json:"plain1"`
	Fold   WirePredR `json:"fold"`
	Exact  WirePredR `json:"exact"`
}

type WireCase struct {
	Blocks []WBlock   `json:"blocks"`
	Preds  []WirePred `json:"preds"`
}

type WireCfg struct {
	Q        int             `json:"q"`
	Base     int             `json:"base"`
	Stride   int             `json:"stride"`
	Mappings []MappingSpec   `json:"mappings"`
	Real     string          `json:"real"`    // store type for non-collapsing targets
	Aspects  map[string]bool `json:"aspects"` // valid: boundary cuts decode to the documented content (C07); trunc/unknown/mismatch/missing: C08
}

const traceWireCfg = `INIT TraceInit
NEXT TraceNext
CONSTANTS
  Q = 64
  Alphabet = {}
  MaxBlocks = 0
INVARIANTS EncodingMeansContent
CHECK_DEADLOCK FALSE
`

var wireUnknownFlags = []byte{wfFlag(wfTypeFeature, 2), wfFlag(wfTypeMapping, 5), wfFlag(wfTypeNegative, 4)}

func (wc *WireCfg) env() *wireEnv {
	e := &wireEnv{Q: wc.Q, Base: wc.Base, Stride: wc.Stride, Unknown: wireUnknownFlags}
	for _, ms := range wc.Mappings {
		e.Mappings = append(e.Mappings, newWireMapping(ms))
	}
	return e
}

func providerOf(real string) store.Provider {
	return func() store.Store { return newRealStore(ModelKind{"exact", 0}, real) }
}

func foldProvider() store.Provider {
	n := 0
	return func() store.Store {
		n++
		if n%2 == 1 {
			return store.NewCollapsingLowestDenseStore(2)
		}
		return store.NewCollapsingHighestDenseStore(2)
	}
}

type WireMismatch struct {
	Cut  int
	What string
	Tags map[string]string
}

func compareDecoded(s *ddsketch.DDSketch, p *WirePredR, wc *WireCfg, wantMapping *MappingSpec) string {
	q := float64(wc.Q)
	sc := StoreCfg{Base: wc.Base, Stride: wc.Stride, Q: wc.Q}
	side := func(name string, st store.Store, pred pairList) string {
		got := map[int]float64{}
		st.ForEach(func(i int, c float64) bool { got[i] += c; return false })
		if len(got) != len(pred) {
			return fmt.Sprintf("%s store holds %v, documentation assigns %v (model indexes, quanta)", name, got, pred)
		}
		for _, b := range pred {
			if got[sc.sigma(b[0])]*q != float64(b[1]) {
				return fmt.Sprintf("%s store holds %v, documentation assigns %v (model indexes, quanta)", name, got, pred)
			}
		}
		return ""
	}
	if d := side("positive", s.GetPositiveValueStore(), p.Pos); d != "" {
		return d
	}
	if d := side("negative", s.GetNegativeValueStore(), p.Neg); d != "" {
		return d
	}
	if s.GetZeroCount()*q != float64(p.Zero) {
		return fmt.Sprintf("zero weight %v, documentation assigns %v", s.GetZeroCount(), float64(p.Zero)/q)
	}
	if wantMapping != nil {
		if d := sameMapping(s.IndexMapping, wantMapping.build()); d != "" {
			return d
		}
	}
	return ""
}

// replayWire serialises the stream and runs every decoder on every byte prefix.
func replayWire(cs *WireCase, wc *WireCfg) (mm *WireMismatch) {
	env := wc.env()
	var bytes []byte
	bounds := map[int]int{0: 0} // byte offset -> number of complete blocks
	kinds := map[int]string{}   // byte offset inside -> type of the cut block
	for i := range cs.Blocks {
		start := len(bytes)
		bytes = env.serialize(bytes, &cs.Blocks[i])
		for o := start + 1; o < len(bytes); o++ {
			kinds[o] = cs.Blocks[i].T + "/" + cs.Blocks[i].Layout
		}
		bounds[len(bytes)] = i + 1
	}
	cut := 0
	which := ""
	defer func() {
		if r := recover(); r != nil {
			mm = &WireMismatch{Cut: cut, What: fmt.Sprintf("%s panicked on the %d-byte prefix: %v", which, cut, r), Tags: map[string]string{"outcome": "panic", "decoder": which}}
		}
	}()
	m1 := wc.Mappings[0]
	for cut = 0; cut <= len(bytes); cut++ {
		data := append([]byte{}, bytes[:cut]...)
		k, boundary := bounds[cut]
		type run struct {
			name string
			pred *WirePredR
			dec  func() (*ddsketch.DDSketch, float64, error)
		}
		var pr *WirePred
		if boundary {
			pr = &cs.Preds[k]
		} else {
			pr = &WirePred{}
		}
		runs := []run{
			{"DecodeDDSketch", &pr.Plain, func() (*ddsketch.DDSketch, float64, error) {
				s, err := ddsketch.DecodeDDSketch(data, providerOf(wc.Real), nil)
				return s, 0, err
			}},
			{"DecodeAndMergeWith(receiver with mapping 1)", &pr.Plain1, func() (*ddsketch.DDSketch, float64, error) {
				s := ddsketch.NewDDSketchFromStoreProvider(m1.build(), providerOf(wc.Real))
				err := s.DecodeAndMergeWith(data)
				return s, 0, err
			}},
			{"DecodeDDSketch(supplied mapping 1)", &pr.Plain1, func() (*ddsketch.DDSketch, float64, error) {
				s, err := ddsketch.DecodeDDSketch(data, providerOf(wc.Real), m1.build())
				return s, 0, err
			}},
			{"DecodeDDSketchWithExactSummaryStatistics", &pr.Exact, func() (*ddsketch.DDSketch, float64, error) {
				s, err := ddsketch.DecodeDDSketchWithExactSummaryStatistics(data, providerOf(wc.Real), nil)
				if err != nil || s == nil {
					return nil, 0, err
				}
				return s.DDSketch, s.GetCount(), err
			}},
		}
		if wc.Stride == 1 {
			runs = append(runs, run{"DecodeDDSketch(collapsing stores)", &pr.Fold, func() (*ddsketch.DDSketch, float64, error) {
				s, err := ddsketch.DecodeDDSketch(data, foldProvider(), nil)
				return s, 0, err
			}})
		}
		for _, r := range runs {
			which = r.name
			s, xcnt, err := r.dec()
			if !boundary {
				// C08: a cut strictly inside a block must be reported
				if err == nil && wc.Aspects["trunc"] {
					return &WireMismatch{Cut: cut, What: fmt.Sprintf("%s accepted an encoding cut inside a %s block (%d of %d bytes)", r.name, kinds[cut], cut, len(bytes)),
						Tags: map[string]string{"outcome": "accepted-truncated", "decoder": r.name, "block": kinds[cut]}}
				}
				continue
			}
			if r.pred.Err != "" {
				if err == nil && wc.Aspects[r.pred.Err] {
					return &WireMismatch{Cut: cut, What: fmt.Sprintf("%s accepted a stream that must be refused (%s) at the boundary after %d blocks", r.name, r.pred.Err, k),
						Tags: map[string]string{"outcome": "accepted-invalid", "decoder": r.name, "class": r.pred.Err}}
				}
				continue
			}
			if !wc.Aspects["valid"] {
				continue
			}
			tags := map[string]string{"outcome": "valid-stream", "decoder": r.name}
			if err != nil {
				return &WireMismatch{Cut: cut, What: fmt.Sprintf("%s refused a well-formed stream of %d complete blocks: %v", r.name, k, err), Tags: tags}
			}
			var wm *MappingSpec
			if r.pred.M >= 1 {
				wm = &wc.Mappings[r.pred.M-1]
			}
			if d := compareDecoded(s, r.pred, wc, wm); d != "" {
				return &WireMismatch{Cut: cut, What: fmt.Sprintf("%s of %d complete blocks: %s", r.name, k, d), Tags: tags}
			}
			if r.name == "DecodeDDSketchWithExactSummaryStatistics" && xcnt*float64(wc.Q) != float64(r.pred.Xcnt) {
				return &WireMismatch{Cut: cut, What: fmt.Sprintf("%s: exact count %v, documentation assigns %v", r.name, xcnt, float64(r.pred.Xcnt)/float64(wc.Q)), Tags: tags}
			}
		}
	}
	return nil
}

func wireConfigs(aspects map[string]bool, thorough bool) []WireCfg {
	maps := [][]MappingSpec{{{Kind: "log", Alpha: 0.01}, {Kind: "cubic", Alpha: 0.02}}, {{Kind: "linear", Alpha: 0.05}, {Kind: "log", Alpha: 0.05}},
		{{Kind: "cubic", Alpha: 0.001}, {Kind: "cubic", Alpha: 0.002}},
		// two mappings of different kinds with bit-identical base and offset: still different mappings
		{{Kind: "log", Alpha: 0.01}, {Kind: "cubic@log", Alpha: 0.01}}, {{Kind: "linear", Alpha: 0.02}, {Kind: "log@linear", Alpha: 0.02}}}
	embs := []embedding{{0, 1}, {-3, 1}, {30, 1}, {1000, 1}, {-70000, 1}, {5, 3}, {-64, 32}, {1 << 20, 1 << 10}}
	var out []WireCfg
	for _, ms := range maps {
		for _, e := range embs {
			for _, real := range exactRealKinds {
				if real != "sparse" && e.Stride > 64 {
					continue
				}
				out = append(out, WireCfg{Q: 4, Base: e.Base, Stride: e.Stride, Mappings: ms, Real: real, Aspects: aspects})
				if !aspects["valid"] && e.Stride == 1 {
					// error/truncation classes do not depend on the weights being dyadic: weights k/10 and k/3 give
					// varfloat64 payloads of the full 9 bytes, so that cuts fall inside long payloads too
					out = append(out, WireCfg{Q: 10, Base: e.Base, Stride: e.Stride, Mappings: ms, Real: real, Aspects: aspects})
					out = append(out, WireCfg{Q: 3, Base: e.Base, Stride: e.Stride, Mappings: ms, Real: real, Aspects: aspects})
				}
			}
		}
	}
	return out
}

// runWireGen: TLC enumerates all streams of maxBlocks blocks over the alphabet.
func (c *Ctx) runWireGen(alphabet string, maxBlocks int, aspects map[string]bool, per int, purpose string) {
	if !c.phase(purpose) {
		return
	}
	cfgs := wireConfigs(aspects, !c.quick())
	if per > len(cfgs) {
		per = len(cfgs)
	}
	cfg := fmt.Sprintf(`SPECIFICATION Spec
CONSTANTS
  Q = 4
  Alphabet <- %s
  MaxBlocks = %d
INVARIANTS Emit
CHECK_DEADLOCK FALSE
`, alphabet, maxBlocks)
	type job struct {
		n  int64
		cs *WireCase
	}
	jobs := make(chan job, 256)
	var wg sync.WaitGroup
	var decodes, replays int64
	for k := 0; k < c.Workers; k++ {
		wg.Add(1)
		go func() {
			defer wg.Done()
			for j := range jobs {
				for r := 0; r < per; r++ {
					ci := int(((j.n*int64(per)+int64(r))*7919 + c.Seed*104729) % int64(len(cfgs)))
					wc := cfgs[ci]
					if mm := replayWire(j.cs, &wc); mm != nil {
						c.report(&Violation{Pipeline: "wire", Config: wc, Case: j.cs, Step: mm.Cut, What: mm.What, Tags: mm.Tags})
					}
					atomic.AddInt64(&replays, 1)
				}
				bb, _ := json.Marshal(j.cs.Blocks)
				c.addDistinct(string(bb))
				nb := 0
				for range j.cs.Blocks {
					nb++
				}
				atomic.AddInt64(&decodes, int64(per*5*(nb*6)))
			}
		}()
	}
	var n int64
	var parseErr error
	res := c.runTLC(TLCOpts{Module: "Gen_Wire", Cfg: cfg, Purpose: purpose, Constants: fmt.Sprintf("alphabet=%s maxBlocks=%d", alphabet, maxBlocks),
		OnBeh: func(line []byte) {
			cs := &WireCase{}
			if err := json.Unmarshal(line, cs); err != nil {
				if parseErr == nil {
					parseErr = fmt.Errorf("%v in %.300s", err, line)
				}
				return
			}
			if n < 2 {
				c.addSample(map[string]interface{}{"pipeline": "Wire stream (" + purpose + ")", "blocks": cs.Blocks})
			}
			jobs <- job{n, cs}
			n++
		}})
	close(jobs)
	wg.Wait()
	if parseErr != nil {
		infraFail("cannot parse stream: %v", parseErr)
	}
	if res.Violated != "" {
		infraFail("Gen_Wire violated %s\n%s", res.Violated, res.ErrorText)
	}
	if n == 0 {
		infraFail("TLC emitted no stream (%s)", purpose)
	}
	c.mu.Lock()
	c.Ev.Coverage.Traces += replays
	c.Ev.Coverage.StepsCompared += decodes
	c.Ev.Coverage.Evaluations += replays
	c.Ev.Coverage.Configs += int64(len(cfgs))
	c.Ev.Coverage.States += res.Distinct
	c.Ev.Coverage.Transitions += res.Generated
	c.mu.Unlock()
	fmt.Printf("  [%s] %d streams x %d of %d configurations, every byte prefix decoded by 4-5 decoders %.0fs\n", purpose, n, per, len(cfgs), time.Since(c.phaseStart).Seconds())
}

func (c *Ctx) runWireMC(alphabet string, maxBlocks int, purpose string) {
	if !c.phase("MC " + purpose) {
		return
	}
	cfg := fmt.Sprintf(`SPECIFICATION Spec
CONSTANTS
  Q = 4
  Alphabet <- %s
  MaxBlocks = %d
INVARIANTS W_OrderIrrelevant W_StatsIgnoredByPlain W_ConcatIsMerge W_Errors W_FoldedTargets
CHECK_DEADLOCK FALSE
`, alphabet, maxBlocks)
	res := c.runMC(TLCOpts{Module: "Gen_Wire", Cfg: cfg, Purpose: purpose, Constants: fmt.Sprintf("alphabet=%s maxBlocks=%d", alphabet, maxBlocks)})
	fmt.Printf("  [MC %s] %d streams: W_OrderIrrelevant W_StatsIgnoredByPlain W_ConcatIsMerge W_Errors W_FoldedTargets hold %.0fs\n", purpose, res.Distinct, time.Since(c.phaseStart).Seconds())
}

// ---- producer side (direction B): real encodings tokenised and validated by TLC ----

type wireTraceLine struct {
	Blocks []PBlock   `json:"blocks"`
	M      int        `json:"m"`
	Pos    [][2]int64 `json:"pos"`
	Neg    [][2]int64 `json:"neg"`
	Zero   int64      `json:"zero"`
	Xcnt   int64      `json:"xcnt"`
	Info   string     `json:"info"`
}

func sortedQuanta(st store.Store, q int) ([][2]int64, error) {
	var out [][2]int64
	var perr error
	st.ForEach(func(i int, c float64) bool {
		w, err := quanta(c, q)
		if err != nil {
			perr = err
		}
		out = append(out, [2]int64{int64(i), w})
		return false
	})
	sortPairs(out)
	if out == nil {
		out = [][2]int64{}
	}
	return out, perr
}

func sortPairs(p [][2]int64) {
	for i := 1; i < len(p); i++ {
		for j := i; j > 0 && p[j][0] < p[j-1][0]; j-- {
			p[j], p[j-1] = p[j-1], p[j]
		}
	}
}

// runWireProducer builds random real sketches (all store kinds, both variants, all
// mapping kinds), encodes them with the real encoder, tokenises the bytes with the
// independent tokenizer and lets TLC check that the documented meaning of the blocks
// is exactly the source content.
func (c *Ctx) runWireProducer(n int, purpose string) {
	if !c.phase("producer " + purpose) {
		return
	}
	const q = 64
	rng := rand.New(rand.NewSource(c.Seed*31 + 17))
	path := filepath.Join(c.Scratch, "wire-trace.ndjson")
	f, _ := os.Create(path)
	w := bufio.NewWriter(f)
	kinds := []string{"dense", "sparse", "paged", "low", "high"}
	mapKinds := []MappingSpec{{"log", 0.01}, {"linear", 0.02}, {"cubic", 0.005}, {"log", 0.3}}
	var lines int
	for i := 0; i < n; i++ {
		ms := mapKinds[rng.Intn(len(mapKinds))]
		mk := func() store.Store {
			k := kinds[rng.Intn(len(kinds))]
			if k == "low" || k == "high" {
				return newRealStore(ModelKind{k, []int{2, 8, 128}[rng.Intn(3)]}, "")
			}
			return newRealStore(ModelKind{"exact", 0}, k)
		}
		base := ddsketch.NewDDSketch(ms.build(), mk(), mk())
		exact := rng.Intn(2) == 0
		var ex *ddsketch.DDSketchWithExactSummaryStatistics
		if exact {
			ex, _ = ddsketch.NewDDSketchWithExactSummaryStatisticsFromData(base, stat.NewSummaryStatistics())
		}
		nv := []int{0, 1, 3, 20, 200, 1500}[rng.Intn(6)]
		scale := []float64{1, 1e-3, 1e6, 1e-200, 1e150}[rng.Intn(5)]
		for j := 0; j < nv; j++ {
			v := scale * (0.5 + rng.Float64()*float64(1+rng.Intn(50)))
			switch rng.Intn(8) {
			case 0:
				v = -v
			case 1:
				v = 0
			}
			wt := []float64{1, 1, 1, 0.5, 2, 3.25, 100, 1.0 / 64}[rng.Intn(8)]
			if ex != nil {
				ex.AddWithCount(v, wt)
			} else {
				base.AddWithCount(v, wt)
			}
		}
		omit := rng.Intn(3) == 0
		prefix := make([]byte, rng.Intn(4))
		b := append([]byte{}, prefix...)
		if ex != nil {
			ex.Encode(&b, omit)
		} else {
			base.Encode(&b, omit)
		}
		info := fmt.Sprintf("sketch %d: mapping %v, stores %T/%T, exact=%v, %d values, omit=%v", i, ms, base.GetPositiveValueStore(), base.GetNegativeValueStore(), exact, nv, omit)
		blocks, err := tokenize(b[len(prefix):], q)
		if err != nil {
			c.report(&Violation{Pipeline: "wire-producer", Case: map[string]interface{}{"info": info, "bytes": b[len(prefix):]},
				What: "an encoding produced by Encode is not a sequence of documented blocks: " + err.Error(), Tags: map[string]string{"outcome": "untokenizable"}})
			continue
		}
		// mapping blocks: token 1 if it is the source mapping bit for bit, else 2
		wm := newWireMapping(ms)
		for k := range blocks {
			if blocks[k].T == "map" {
				blocks[k].M = 2
				if blocks[k].Sub == wm.Sub && blocks[k].Gamma == wm.Gamma && blocks[k].Offset == wm.Offset {
					blocks[k].M = 1
				}
			}
		}
		if blocks == nil {
			blocks = []PBlock{}
		}
		line := wireTraceLine{Blocks: blocks, M: 1, Info: info}
		if omit {
			line.M = 0
		}
		var e1, e2, e3 error
		line.Pos, e1 = sortedQuanta(base.GetPositiveValueStore(), q)
		line.Neg, e2 = sortedQuanta(base.GetNegativeValueStore(), q)
		line.Zero, e3 = quanta(base.GetZeroCount(), q)
		if e1 != nil || e2 != nil || e3 != nil {
			infraFail("producer driver generated a non-dyadic weight")
		}
		if ex != nil {
			line.Xcnt, _ = quanta(ex.GetCount(), q)
		}
		jb, _ := json.Marshal(line)
		w.Write(jb)
		w.WriteByte('\n')
		lines++
		if i < 1 {
			c.addSample(map[string]interface{}{"pipeline": "real encoding tokenised by wirefmt", "info": info, "blocks": blocks})
		}
	}
	w.Flush()
	f.Close()
	cfg := traceWireCfg
	res := c.runTLC(TLCOpts{Module: "Trace_Wire", Cfg: cfg, Purpose: "producer " + purpose, Workers: 1, Env: []string{"VERIF_TRACE=" + path}, Timeout: 30 * time.Minute,
		Constants: fmt.Sprintf("%d real encodings, Q=64", lines)})
	if res.Violated != "" {
		lineNo := res.LastL - 1
		keep := filepath.Join(verifRoot, "replays", fmt.Sprintf("%s-wire-trace-%d.ndjson", c.Prop, c.Seed))
		os.MkdirAll(filepath.Dir(keep), 0o755)
		copyFile(path, keep)
		c.report(&Violation{Pipeline: "wire-producer", Case: map[string]interface{}{"trace_file": keep, "line": lineNo}, Step: lineNo,
			What:   fmt.Sprintf("the documented meaning of a real encoding's blocks differs from the encoded sketch's content (line %d of the trace)", lineNo),
			Actual: json.RawMessage(nthLine(path, lineNo)), Tags: map[string]string{"outcome": "producer-mismatch"}})
	} else if res.Distinct != int64(lines)+1 {
		infraFail("Trace_Wire consumed %d of %d lines\n%s", res.Distinct-1, lines, res.Output)
	}
	c.mu.Lock()
	c.Ev.Coverage.Traces += int64(lines)
	c.Ev.Coverage.TraceEvents += int64(lines)
	c.Ev.Coverage.Evaluations += int64(lines)
	c.mu.Unlock()
	fmt.Printf("  [producer %s] %d real encodings tokenised and validated by TLC %.0fs\n", purpose, lines, time.Since(c.phaseStart).Seconds())
}

var _ = mapping.NewDefaultMapping

// runRealTruncations: every byte prefix of real encodings (C08)
func (c *Ctx) runRealTruncations(n int) {
	if !c.phase("real truncations") {
		return
	}
	const q = 64
	rng := rand.New(rand.NewSource(c.Seed*131 + 5))
	kinds := []string{"dense", "sparse", "paged", "low", "high"}
	mapKinds := []MappingSpec{{"log", 0.01}, {"linear", 0.02}, {"cubic", 0.005}}
	var cuts int64
	for i := 0; i < n && len(c.violations) == 0; i++ {
		ms := mapKinds[rng.Intn(len(mapKinds))]
		mk := func() store.Store {
			k := kinds[rng.Intn(len(kinds))]
			if k == "low" || k == "high" {
				return newRealStore(ModelKind{k, []int{2, 8}[rng.Intn(2)]}, "")
			}
			return newRealStore(ModelKind{"exact", 0}, k)
		}
		base := ddsketch.NewDDSketch(ms.build(), mk(), mk())
		exact := rng.Intn(2) == 0
		var ex *ddsketch.DDSketchWithExactSummaryStatistics
		if exact {
			ex, _ = ddsketch.NewDDSketchWithExactSummaryStatisticsFromData(base, stat.NewSummaryStatistics())
		}
		nv := []int{1, 3, 20, 100}[rng.Intn(4)]
		for j := 0; j < nv; j++ {
			v := 0.5 + rng.Float64()*float64(1+rng.Intn(50))
			switch rng.Intn(8) {
			case 0:
				v = -v
			case 1:
				v = 0
			}
			wt := []float64{1, 1, 1, 0.5, 2, 3.25, 0.1, 1.0 / 3, 0.7}[rng.Intn(9)]
			if ex != nil {
				ex.AddWithCount(v, wt)
			} else {
				base.AddWithCount(v, wt)
			}
		}
		var b []byte
		if ex != nil {
			ex.Encode(&b, false)
		} else {
			base.Encode(&b, false)
		}
		// block boundaries according to the independent tokenizer
		bounds := map[int]bool{0: true}
		for cut := 1; cut <= len(b); cut++ {
			if _, err := tokenize(b[:cut], 0); err == nil {
				bounds[cut] = true
			}
		}
		consumer := exactRealKinds[rng.Intn(3)]
		for cut := 0; cut < len(b); cut++ {
			cuts++
			data := append([]byte{}, b[:cut]...)
			func() {
				defer func() {
					if r := recover(); r != nil {
						c.report(&Violation{Pipeline: "wire-real-trunc", Case: map[string]interface{}{"bytes": b, "cut": cut}, Step: cut,
							What: fmt.Sprintf("decoder panicked on a %d-byte prefix of a real %d-byte encoding: %v", cut, len(b), r), Tags: map[string]string{"outcome": "panic"}})
					}
				}()
				_, err1 := ddsketch.DecodeDDSketch(data, providerOf(consumer), nil)
				_, err2 := ddsketch.DecodeDDSketchWithExactSummaryStatistics(data, providerOf(consumer), nil)
				if !bounds[cut] && (err1 == nil || err2 == nil) {
					c.report(&Violation{Pipeline: "wire-real-trunc", Case: map[string]interface{}{"bytes": b, "cut": cut, "consumer": consumer}, Step: cut,
						What: fmt.Sprintf("a real %d-byte encoding cut inside a block at byte %d was accepted (plain err=%v, exact err=%v)", len(b), cut, err1, err2),
						Tags: map[string]string{"outcome": "accepted-truncated", "decoder": "real-encoding"}})
				}
			}()
		}
	}
	c.mu.Lock()
	c.Ev.Coverage.Evaluations += cuts
	c.Ev.Coverage.StepsCompared += cuts
	c.mu.Unlock()
	fmt.Printf("  [real truncations] %d real encodings, %d byte prefixes decoded %.0fs\n", n, cuts, time.Since(c.phaseStart).Seconds())
}

// runExactEncodingsIntoPlain: the last clause of C07 on real encodings with arbitrary (also non-dyadic)
// weights: a plain decoder accepts the encoding of a sketch with exact summary statistics and ignores
// the statistics blocks. Compared with the source sketch's own content; a weight may come back as
// (w+1)-1, i.e. one rounding of the documented varfloat transform away.
func (c *Ctx) runExactEncodingsIntoPlain(n int) {
	if !c.phase("exact encodings into the plain decoder") {
		return
	}
	rng := rand.New(rand.NewSource(c.Seed*733 + 9))
	kinds := []string{"dense", "sparse", "paged", "low", "high"}
	mapKinds := []MappingSpec{{"log", 0.01}, {"linear", 0.02}, {"cubic", 0.005}}
	weights := []float64{1, 1, 0.5, 2, 0.7, 0.1, 0.2, 0.3, 1.0 / 3, 0.9, 1e-3, 123.456, 1 << 30, 5}
	for i := 0; i < n && len(c.violations) == 0; i++ {
		ms := mapKinds[rng.Intn(len(mapKinds))]
		mk := func() store.Store {
			k := kinds[rng.Intn(len(kinds))]
			if k == "low" || k == "high" {
				return newRealStore(ModelKind{k, []int{4, 64}[rng.Intn(2)]}, "")
			}
			return newRealStore(ModelKind{"exact", 0}, k)
		}
		ex, _ := ddsketch.NewDDSketchWithExactSummaryStatisticsFromData(ddsketch.NewDDSketch(ms.build(), mk(), mk()), stat.NewSummaryStatistics())
		nv := 1 + rng.Intn(6)
		for j := 0; j < nv; j++ {
			v := 0.5 + rng.Float64()*40
			switch rng.Intn(6) {
			case 0:
				v = -v
			case 1:
				v = 0
			}
			ex.AddWithCount(v, weights[rng.Intn(len(weights))])
		}
		if rng.Intn(4) == 0 {
			ex.Reweight([]float64{0.1, 1.0 / 3, 0.7, 3}[rng.Intn(4)])
		}
		omit := rng.Intn(3) == 0
		var b []byte
		ex.Encode(&b, omit)
		var supplied mapping.IndexMapping
		if omit {
			supplied = ms.build()
		}
		consumer := exactRealKinds[rng.Intn(3)]
		info := map[string]interface{}{"mapping": ms, "count": ex.GetCount(), "bytes": b, "omit": omit, "consumer": consumer}
		d, err := ddsketch.DecodeDDSketch(b, providerOf(consumer), supplied)
		if err != nil {
			c.report(&Violation{Pipeline: "wire-exact-into-plain", Case: info, What: fmt.Sprintf("DecodeDDSketch refused the encoding of a sketch with exact summary statistics (count %v): %v", ex.GetCount(), err),
				Tags: map[string]string{"outcome": "valid-stream", "decoder": "DecodeDDSketch"}})
			continue
		}
		near := func(a, b float64) bool {
			return a == b || math.Abs(a-b) <= 4e-16*math.Max(math.Abs(a), math.Abs(b)) || (a+1)-1 == b
		}
		cmp := func(name string, src, dst store.Store) string {
			want := map[int]float64{}
			src.ForEach(func(i int, c float64) bool { want[i] += c; return false })
			got := map[int]float64{}
			dst.ForEach(func(i int, c float64) bool { got[i] += c; return false })
			if len(want) != len(got) {
				return fmt.Sprintf("%s store: %d bins decoded, source has %d", name, len(got), len(want))
			}
			for k, v := range want {
				if !near(v, got[k]) {
					return fmt.Sprintf("%s bin %d: decoded weight %v, source %v", name, k, got[k], v)
				}
			}
			return ""
		}
		what := cmp("positive", ex.GetPositiveValueStore(), d.GetPositiveValueStore())
		if what == "" {
			what = cmp("negative", ex.GetNegativeValueStore(), d.GetNegativeValueStore())
		}
		if what == "" && !near(ex.GetZeroCount(), d.GetZeroCount()) {
			what = fmt.Sprintf("zero weight %v decoded, source %v", d.GetZeroCount(), ex.GetZeroCount())
		}
		if what != "" {
			c.report(&Violation{Pipeline: "wire-exact-into-plain", Case: info, What: "plain decoder on an exact-statistics encoding: " + what, Tags: map[string]string{"outcome": "valid-stream"}})
		}
	}
	c.mu.Lock()
	c.Ev.Coverage.Evaluations += int64(n)
	c.Ev.Coverage.Traces += int64(n)
	c.mu.Unlock()
	fmt.Printf("  [exact encodings into the plain decoder] %d real exact-statistics encodings with arbitrary weights decoded by the plain decoder %.0fs\n", n, time.Since(c.phaseStart).Seconds())
}
