package main

// ./check selftest : demonstrates the binding between specification and code (DESIGN 5.4):
// a recorded execution of the real stores is accepted by Trace_Store.tla; the same trace with one
// corrupted observation, one dropped event or one altered argument is rejected.

import (
	"bufio"
	"bytes"
	"encoding/json"
	"fmt"
	"math/rand"
	"os"
	"path/filepath"
	"time"
)

const traceStoreCfg = `INIT TraceInit
NEXT TraceNext
CONSTANTS
  Slots <- TSlots
  Keys = {0}
  Q = 64
  Weights = {0}
  Repeats = {1}
  Factors = {}
  Ops = {}
  InitStores = 0
INVARIANTS Match Bounded LayoutOK
CHECK_DEADLOCK FALSE
`

func selftest() {
	c := newCtx("selftest", "quick")
	defer c.cleanup()
	path := filepath.Join(c.Scratch, "t.ndjson")
	f, _ := os.Create(path)
	w := bufio.NewWriter(f)
	rng := rand.New(rand.NewSource(c.Seed))
	counters := map[string]int64{}
	for i := 0; i < 3; i++ {
		if p, _ := recordStoreTrace(w, rng, traceGenOpts{Events: 150, Kinds: []string{"dense", "sparse", "paged", "low", "high"}, Limits: []int{2, 8, 128},
			Ops: []string{"Add", "AddWithCount", "AddRepeat", "Merge", "CopyTo", "Clear", "Reweight", "EncDec", "Proto"}}, counters); p != "" {
			infraFail("selftest: recording failed: %s", p)
		}
	}
	w.Flush()
	f.Close()
	orig, _ := os.ReadFile(path)
	lines := bytes.Split(bytes.TrimSpace(orig), []byte("\n"))
	run := func(name string, content []byte) (accepted bool, consumed int64) {
		p := filepath.Join(c.Scratch, name+".ndjson")
		os.WriteFile(p, content, 0o644)
		res := c.runTLC(TLCOpts{Module: "Trace_Store", Cfg: traceStoreCfg, Purpose: "selftest " + name, Workers: 1, Env: []string{"VERIF_TRACE=" + p}, Timeout: 5 * time.Minute})
		return res.Violated == "", res.Distinct - 1
	}
	ok := true
	if acc, n := run("original", orig); !acc || n != int64(len(lines)) {
		fmt.Printf("selftest FAILED: the unmodified recorded trace is not accepted (%v, %d of %d lines)\n", acc, n, len(lines))
		ok = false
	} else {
		fmt.Printf("selftest: unmodified trace of %d events accepted by Trace_Store.tla\n", len(lines))
	}
	mutate := func(name string, f func(ev map[string]interface{}) bool) {
		// apply f to the first event (after line 20) for which it reports a change
		out := make([][]byte, len(lines))
		copy(out, lines)
		done := false
		for i := 20; i < len(lines) && !done; i++ {
			var ev map[string]interface{}
			json.Unmarshal(lines[i], &ev)
			if f(ev) {
				out[i], _ = json.Marshal(ev)
				done = true
			}
		}
		if !done {
			infraFail("selftest: no event to corrupt for %s", name)
		}
		if acc, _ := run(name, append(bytes.Join(out, []byte("\n")), '\n')); acc {
			fmt.Printf("selftest FAILED: trace with %s was ACCEPTED\n", name)
			ok = false
		} else {
			fmt.Printf("selftest: trace with %s rejected\n", name)
		}
	}
	mutate("one corrupted observation (total)", func(ev map[string]interface{}) bool {
		obs, has := ev["obs"].(map[string]interface{})
		if !has || obs["total"].(float64) == 0 {
			return false
		}
		obs["total"] = obs["total"].(float64) + 1
		return true
	})
	mutate("one corrupted argument (added weight)", func(ev map[string]interface{}) bool {
		if ev["op"] != "AddWithCount" || ev["w"].(float64) == 0 {
			return false
		}
		ev["w"] = ev["w"].(float64) * 2
		return true
	})
	mutate("one corrupted rank answer", func(ev map[string]interface{}) bool {
		obs, has := ev["obs"].(map[string]interface{})
		if !has {
			return false
		}
		kar, _ := obs["kar"].([]interface{})
		if len(kar) < 3 || obs["nbins"].(float64) < 2 {
			return false
		}
		first := kar[0].([]interface{})
		last := kar[len(kar)-1].([]interface{})
		if first[1] == last[1] {
			return false
		}
		first[1] = last[1]
		return true
	})
	// dropped event: remove the first mutating Add after line 20
	for i := 20; i < len(lines); i++ {
		var ev map[string]interface{}
		json.Unmarshal(lines[i], &ev)
		if ev["op"] == "Add" {
			out := append(append([][]byte{}, lines[:i]...), lines[i+1:]...)
			if acc, _ := run("dropped", append(bytes.Join(out, []byte("\n")), '\n')); acc {
				fmt.Println("selftest FAILED: trace with one dropped Add event was ACCEPTED")
				ok = false
			} else {
				fmt.Println("selftest: trace with one dropped Add event rejected")
			}
			break
		}
	}
	// array/page layout binding (DenseImpl.tla / PagedImpl.tla): corrupt one recorded layout field
	layoutTest := func(name, module, cfg string, kinds []string, ops []string, corrupt func(lay map[string]interface{}) bool) {
		p := filepath.Join(c.Scratch, name+".ndjson")
		f, _ := os.Create(p)
		w := bufio.NewWriter(f)
		if pr, _ := recordStoreTrace(w, rng, traceGenOpts{Layout: true, MaxWidth: 40, Events: 400, Kinds: kinds, Limits: []int{4, 16}, Ops: ops}, counters); pr != "" {
			infraFail("selftest: %s", pr)
		}
		w.Flush()
		f.Close()
		res := c.runTLC(TLCOpts{Module: module, Cfg: cfg, Purpose: "selftest " + name, Workers: 1, Env: []string{"VERIF_TRACE=" + p}, Timeout: 5 * time.Minute})
		if res.Violated != "" {
			fmt.Printf("selftest FAILED: unmodified %s trace rejected by %s\n", name, module)
			ok = false
			return
		}
		b, _ := os.ReadFile(p)
		ls := bytes.Split(bytes.TrimSpace(b), []byte("\n"))
		done := false
		for i := len(ls) / 2; i < len(ls) && !done; i++ {
			var ev map[string]interface{}
			json.Unmarshal(ls[i], &ev)
			if lay, has := ev["lay"].(map[string]interface{}); has && corrupt(lay) {
				ls[i], _ = json.Marshal(ev)
				done = true
			}
		}
		if !done {
			infraFail("selftest: nothing to corrupt in the %s trace", name)
		}
		os.WriteFile(p, append(bytes.Join(ls, []byte("\n")), '\n'), 0o644)
		res = c.runTLC(TLCOpts{Module: module, Cfg: cfg, Purpose: "selftest " + name + " corrupted", Workers: 1, Env: []string{"VERIF_TRACE=" + p}, Timeout: 5 * time.Minute})
		if res.Violated == "" {
			fmt.Printf("selftest FAILED: %s trace with a corrupted layout field was ACCEPTED by %s\n", name, module)
			ok = false
		} else {
			fmt.Printf("selftest: %s trace accepted by %s, and rejected with one corrupted layout field\n", name, module)
		}
	}
	layoutTest("dense-layout", "Trace_Dense", traceDenseCfg, []string{"dense", "low", "high"}, []string{"Add", "AddWithCount", "Merge", "Clear", "CopyTo", "Reweight"},
		func(lay map[string]interface{}) bool {
			if lay["len"].(float64) < 4 {
				return false
			}
			lay["off"] = lay["off"].(float64) + 1
			return true
		})
	layoutTest("paged-layout", "Trace_Paged", tracePagedCfg, []string{"paged"}, []string{"Add", "Add", "Add", "Add", "AddWithCount", "Clear", "CopyTo", "Reweight", "Read"},
		func(lay map[string]interface{}) bool {
			if lay["palloc"].(float64) < 1 {
				return false
			}
			lay["trig"] = lay["trig"].(float64) + 1
			return true
		})
	if !ok {
		os.Exit(1)
	}
	fmt.Println("selftest: OK")
}
