package main

// wirefmt: an INDEPENDENT writer and tokenizer of the sketch wire format,
// written from the documentation in ddsketch/encoding/flag.go and the comments
// of encoding.go - it does not call the repository's encoders or decoders.
// Its primitives are themselves validated against Varint.tla's vectors (C18).

import (
	"encoding/binary"
	"errors"
	"fmt"
	"math"
	"math/bits"
	"strings"
)

// flag types (2 least significant bits) and subflags (6 most significant bits)
const (
	wfTypeFeature  = 0b00
	wfTypeMapping  = 0b10
	wfTypePositive = 0b01
	wfTypeNegative = 0b11

	wfSubZero  = 1
	wfSubCount = 0x28
	wfSubSum   = 0x21
	wfSubMin   = 0x22
	wfSubMax   = 0x23

	wfSubIdc = 1
	wfSubId  = 2
	wfSubCc  = 3
)

func wfFlag(typ, sub byte) byte { return typ | sub<<2 }

func wfPutUvarint(b []byte, v uint64) []byte {
	for i := 0; i < 8; i++ {
		if v < 0x80 {
			return append(b, byte(v))
		}
		b = append(b, byte(v&0x7f)|0x80)
		v >>= 7
	}
	return append(b, byte(v)) // ninth byte carries 8 bits
}

func wfZigzag(v int64) uint64 { return uint64(v<<1) ^ uint64(v>>63) }

func wfPutVarint(b []byte, v int64) []byte { return wfPutUvarint(b, wfZigzag(v)) }

func wfPutFloatLE(b []byte, v float64) []byte {
	var t [8]byte
	binary.LittleEndian.PutUint64(t[:], math.Float64bits(v))
	return append(b, t[:]...)
}

// varfloat64: bits(v+1)-bits(1), rotated left by 6, then 7 bits at a time from the most significant end
func wfPutVarfloat(b []byte, v float64) []byte {
	x := bits.RotateLeft64(math.Float64bits(v+1)-math.Float64bits(1), 6)
	for i := 0; i < 8; i++ {
		n := byte(x >> 57)
		x <<= 7
		if x == 0 {
			return append(b, n)
		}
		b = append(b, n|0x80)
	}
	return append(b, byte(x>>56))
}

var errWfEOF = errors.New("wirefmt: unexpected end of input")

func wfGetUvarint(b []byte) (uint64, []byte, error) {
	var x uint64
	var s uint
	for i := 0; ; i++ {
		if i >= len(b) {
			return 0, b, errWfEOF
		}
		c := b[i]
		if i == 8 {
			return x | uint64(c)<<s, b[i+1:], nil
		}
		if c < 0x80 {
			return x | uint64(c)<<s, b[i+1:], nil
		}
		x |= uint64(c&0x7f) << s
		s += 7
	}
}

func wfGetVarint(b []byte) (int64, []byte, error) {
	u, rest, err := wfGetUvarint(b)
	return int64(u>>1) ^ -int64(u&1), rest, err
}

func wfGetVarfloat(b []byte) (float64, []byte, error) {
	var x uint64
	s := uint(57)
	i := 0
	for {
		if i >= len(b) {
			return 0, b, errWfEOF
		}
		c := b[i]
		if i == 8 {
			x |= uint64(c)
			break
		}
		if c < 0x80 {
			x |= uint64(c) << s
			break
		}
		x |= uint64(c&0x7f) << s
		i++
		s -= 7
	}
	return math.Float64frombits(bits.RotateLeft64(x, -6)+math.Float64bits(1)) - 1, b[i+1:], nil
}

func wfGetFloatLE(b []byte) (float64, []byte, error) {
	if len(b) < 8 {
		return 0, b, errWfEOF
	}
	return math.Float64frombits(binary.LittleEndian.Uint64(b)), b[8:], nil
}

// WBlock is the JSON form of a Wire.tla block.
type WBlock struct {
	T      string  `json:"t"`
	Side   int     `json:"side"`
	Layout string  `json:"layout"`
	Ix     intList `json:"ix"`
	Cn     intList `json:"cn"`
	W      int     `json:"w"`
	M      int     `json:"m"`
}

type wireEnv struct {
	Q        int
	Base     int
	Stride   int
	Mappings []wireMapping // index = mapping token - 1
	Unknown  []byte        // undefined flag bytes, index = token - 1
}

type wireMapping struct {
	Spec   MappingSpec
	Sub    byte // interpolation subflag: log 0, linear 1, cubic 3
	Gamma  float64
	Offset float64
}

func newWireMapping(ms MappingSpec) wireMapping {
	m := ms.build()
	p := m.ToProto() // data only: gamma and index offset of that mapping
	sub := byte(0)
	base := ms.Kind
	if i := strings.Index(base, "@"); i > 0 {
		base = base[:i]
	}
	switch base {
	case "linear":
		sub = 1
	case "cubic":
		sub = 3
	}
	return wireMapping{Spec: ms, Sub: sub, Gamma: p.Gamma, Offset: p.IndexOffset}
}

// serialize writes one block; model indexes are embedded as Base + i*Stride.
func (e *wireEnv) serialize(b []byte, blk *WBlock) []byte {
	q := float64(e.Q)
	switch blk.T {
	case "zero":
		b = append(b, wfFlag(wfTypeFeature, wfSubZero))
		return wfPutVarfloat(b, float64(blk.W)/q)
	case "map":
		m := e.Mappings[blk.M-1]
		b = append(b, wfFlag(wfTypeMapping, m.Sub))
		b = wfPutFloatLE(b, m.Gamma)
		return wfPutFloatLE(b, m.Offset)
	case "stat":
		switch blk.Layout {
		case "count":
			b = append(b, wfFlag(wfTypeFeature, wfSubCount))
			return wfPutVarfloat(b, float64(blk.W)/q)
		case "sum":
			b = append(b, wfFlag(wfTypeFeature, wfSubSum))
		case "min":
			b = append(b, wfFlag(wfTypeFeature, wfSubMin))
		case "max":
			b = append(b, wfFlag(wfTypeFeature, wfSubMax))
		}
		return wfPutFloatLE(b, float64(blk.W))
	case "unk":
		return append(b, e.Unknown[blk.M-1])
	case "bins":
		typ := byte(wfTypePositive)
		if blk.Side < 0 {
			typ = wfTypeNegative
		}
		switch blk.Layout {
		case "idc", "id":
			sub := byte(wfSubIdc)
			if blk.Layout == "id" {
				sub = wfSubId
			}
			b = append(b, wfFlag(typ, sub))
			b = wfPutUvarint(b, uint64(len(blk.Ix)))
			for j, d := range blk.Ix {
				delta := int64(d * e.Stride)
				if j == 0 {
					delta += int64(e.Base)
				}
				b = wfPutVarint(b, delta)
				if blk.Layout == "idc" {
					b = wfPutVarfloat(b, float64(blk.Cn[j])/q)
				}
			}
			return b
		case "cc":
			b = append(b, wfFlag(typ, wfSubCc))
			b = wfPutUvarint(b, uint64(len(blk.Cn)))
			b = wfPutVarint(b, int64(e.Base+blk.Ix[0]*e.Stride))
			b = wfPutVarint(b, int64(blk.Ix[1]*e.Stride))
			for _, c := range blk.Cn {
				b = wfPutVarfloat(b, float64(c)/q)
			}
			return b
		}
	}
	panic(fmt.Sprintf("wirefmt: cannot serialise block %+v", *blk))
}

// PBlock is a tokenised block of a real encoding (direction B): indexes are
// real, weights are in quanta of 1/q (non-integral quanta are reported).
type PBlock struct {
	T      string  `json:"t"`
	Side   int     `json:"side"`
	Layout string  `json:"layout"`
	Ix     []int64 `json:"ix"`
	Cn     []int64 `json:"cn"`
	W      int64   `json:"w"`
	M      int     `json:"m"`
	// for mapping blocks
	Sub    byte    `json:"-"`
	Gamma  float64 `json:"-"`
	Offset float64 `json:"-"`
	Value  float64 `json:"-"` // statistics value
}

func quanta(v float64, q int) (int64, error) {
	if q == 0 {
		return 0, nil // raw mode: only the block structure is wanted
	}
	x := v * float64(q)
	if x != math.Trunc(x) || math.Abs(x) > 1<<40 {
		return 0, fmt.Errorf("weight %v is not a multiple of 1/%d", v, q)
	}
	return int64(x), nil
}

// tokenize parses a complete encoding into blocks, exactly as documented.
func tokenize(b []byte, q int) ([]PBlock, error) {
	var out []PBlock
	for len(b) > 0 {
		f := b[0]
		b = b[1:]
		typ, sub := f&0b11, f>>2
		var blk PBlock
		var err error
		switch typ {
		case wfTypeFeature:
			var v float64
			switch sub {
			case wfSubZero, wfSubCount:
				v, b, err = wfGetVarfloat(b)
				if err != nil {
					return out, err
				}
				blk.T, blk.Layout = "zero", ""
				if sub == wfSubCount {
					blk.T, blk.Layout = "stat", "count"
				}
				if blk.W, err = quanta(v, q); err != nil {
					return out, err
				}
			case wfSubSum, wfSubMin, wfSubMax:
				v, b, err = wfGetFloatLE(b)
				if err != nil {
					return out, err
				}
				blk.T, blk.Value = "stat", v
				blk.Layout = map[byte]string{wfSubSum: "sum", wfSubMin: "min", wfSubMax: "max"}[sub]
			default:
				return out, fmt.Errorf("undocumented sketch feature flag %#x", f)
			}
		case wfTypeMapping:
			if sub > 4 {
				return out, fmt.Errorf("undocumented mapping flag %#x", f)
			}
			blk.T, blk.Sub = "map", sub
			if blk.Gamma, b, err = wfGetFloatLE(b); err != nil {
				return out, err
			}
			if blk.Offset, b, err = wfGetFloatLE(b); err != nil {
				return out, err
			}
		default:
			blk.T, blk.Side = "bins", 1
			if typ == wfTypeNegative {
				blk.Side = -1
			}
			var n uint64
			if n, b, err = wfGetUvarint(b); err != nil {
				return out, err
			}
			if n > 1<<24 {
				return out, fmt.Errorf("implausible bin count %d", n)
			}
			switch sub {
			case wfSubIdc, wfSubId:
				blk.Layout = "idc"
				if sub == wfSubId {
					blk.Layout = "id"
				}
				for i := uint64(0); i < n; i++ {
					var d int64
					if d, b, err = wfGetVarint(b); err != nil {
						return out, err
					}
					blk.Ix = append(blk.Ix, d)
					if sub == wfSubIdc {
						var c float64
						if c, b, err = wfGetVarfloat(b); err != nil {
							return out, err
						}
						cq, err := quanta(c, q)
						if err != nil {
							return out, err
						}
						blk.Cn = append(blk.Cn, cq)
					}
				}
			case wfSubCc:
				blk.Layout = "cc"
				var first, stride int64
				if first, b, err = wfGetVarint(b); err != nil {
					return out, err
				}
				if stride, b, err = wfGetVarint(b); err != nil {
					return out, err
				}
				blk.Ix = []int64{first, stride}
				for i := uint64(0); i < n; i++ {
					var c float64
					if c, b, err = wfGetVarfloat(b); err != nil {
						return out, err
					}
					cq, err := quanta(c, q)
					if err != nil {
						return out, err
					}
					blk.Cn = append(blk.Cn, cq)
				}
			default:
				return out, fmt.Errorf("undocumented bin encoding flag %#x", f)
			}
		}
		if blk.Ix == nil {
			blk.Ix = []int64{}
		}
		if blk.Cn == nil {
			blk.Cn = []int64{}
		}
		out = append(out, blk)
	}
	return out, nil
}
