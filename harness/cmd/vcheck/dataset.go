package main

// Dataset pipeline (Dataset.tla, property C20)

import (
	"encoding/json"
	"fmt"
	"math"
	"math/big"
	"math/rand"
	"sort"
	"strings"
	"sync"
	"sync/atomic"
	"time"

	"github.com/DataDog/sketches-go/dataset"
)

type DsEvent struct {
	Op string `json:"op"`
	D  int    `json:"d"`
	O  int    `json:"o"`
	V  int    `json:"v"`
}

type DsObs struct {
	Count int     `json:"count"`
	Min   int     `json:"min"`
	Max   int     `json:"max"`
	Sum   int     `json:"sum"`
	Lower intList `json:"lower"`
	Upper intList `json:"upper"`
}

type DsStep struct {
	Ev   DsEvent `json:"ev"`
	Pred []DsObs `json:"pred"`
}

type DsCfg struct {
	NSets int     `json:"nsets"`
	QDen  int     `json:"qden"`
	Scale float64 `json:"scale"` // model value v stands for v*Scale
	Mode  string  `json:"mode"`
}

func compareDataset(d *dataset.Dataset, p *DsObs, cfg *DsCfg) string {
	if d.Count != float64(p.Count) {
		return fmt.Sprintf("Count=%v, specification says %d", d.Count, p.Count)
	}
	for _, q := range []float64{math.NaN(), -math.SmallestNonzeroFloat64, math.Nextafter(1, 2), -1, 2} {
		if !math.IsNaN(d.LowerQuantile(q)) || !math.IsNaN(d.UpperQuantile(q)) || !math.IsNaN(d.Quantile(q)) {
			if math.IsNaN(q) {
				// NaN q: "q out of range" -> NaN expected; Values[int(floor(NaN))] would panic or misindex
			}
			return fmt.Sprintf("quantile query with q=%v did not return NaN", q)
		}
	}
	if p.Count == 0 {
		for _, q := range []float64{0, 0.5, 1} {
			if !math.IsNaN(d.LowerQuantile(q)) || !math.IsNaN(d.UpperQuantile(q)) {
				return "quantile of an empty dataset is not NaN"
			}
		}
		if d.Sum() != 0 {
			return fmt.Sprintf("Sum of an empty dataset is %v", d.Sum())
		}
		return ""
	}
	for a := 0; a <= cfg.QDen; a++ {
		q := float64(a) / float64(cfg.QDen)
		lo, up, qq := d.LowerQuantile(q), d.UpperQuantile(q), d.Quantile(q)
		if lo != float64(p.Lower[a])*cfg.Scale {
			return fmt.Sprintf("LowerQuantile(%v)=%v, order statistic of rank floor(q(n-1)) is %v", q, lo, float64(p.Lower[a])*cfg.Scale)
		}
		if up != float64(p.Upper[a])*cfg.Scale {
			return fmt.Sprintf("UpperQuantile(%v)=%v, order statistic of rank ceil(q(n-1)) is %v", q, up, float64(p.Upper[a])*cfg.Scale)
		}
		if qq != lo {
			return fmt.Sprintf("Quantile(%v)=%v differs from LowerQuantile=%v", q, qq, lo)
		}
	}
	if d.Min() != float64(p.Min)*cfg.Scale || d.Max() != float64(p.Max)*cfg.Scale {
		return fmt.Sprintf("Min/Max=%v/%v, specification says %v/%v", d.Min(), d.Max(), float64(p.Min)*cfg.Scale, float64(p.Max)*cfg.Scale)
	}
	if d.Sum() != float64(p.Sum)*cfg.Scale {
		return fmt.Sprintf("Sum=%v, exact sum is %v", d.Sum(), float64(p.Sum)*cfg.Scale)
	}
	return ""
}

func replayDataset(beh []DsStep, cfg *DsCfg) (step int, what string) {
	defer func() {
		if r := recover(); r != nil {
			what = fmt.Sprintf("panic: %v", r)
		}
	}()
	sets := make([]*dataset.Dataset, cfg.NSets)
	for i := range sets {
		sets[i] = dataset.NewDataset()
	}
	for i := range beh {
		step = i + 1
		e := beh[i].Ev
		switch e.Op {
		case "Add":
			sets[e.D-1].Add(float64(e.V) * cfg.Scale)
		case "Merge":
			sets[e.D-1].Merge(sets[e.O-1])
		case "Query":
			sets[e.D-1].Quantile(0.5)
		}
		if cfg.Mode == "final" && i != len(beh)-1 {
			continue
		}
		for s := range sets {
			if d := compareDataset(sets[s], &beh[i].Pred[s], cfg); d != "" {
				return step, fmt.Sprintf("dataset %d: %s", s+1, d)
			}
		}
	}
	return 0, ""
}

func (c *Ctx) runDatasetGen(values string, nsets, maxLen, depth int, simulate bool, num int, purpose string) {
	if !c.phase(purpose) {
		return
	}
	sets := make([]int, nsets)
	for i := range sets {
		sets[i] = i + 1
	}
	cfg := fmt.Sprintf(`INIT GenInit
NEXT GenNext
CONSTANTS
  Sets = %s
  Values <- %s
  QDen = 8
  MaxLen = %d
  Ops = {"Add", "Merge", "Query"}
  Depth = %d
  Lazy = %s
INVARIANT Emit
CHECK_DEADLOCK FALSE
`, tlaSet(sets), values, maxLen, depth, map[bool]string{true: "TRUE", false: "FALSE"}[simulate])
	var cfgs []DsCfg
	for _, sc := range []float64{0.5, 1, 1e-3 * 1024, 1 << 40} {
		for _, m := range []string{"every", "final"} {
			cfgs = append(cfgs, DsCfg{NSets: nsets, QDen: 8, Scale: sc, Mode: m})
		}
	}
	type job struct {
		n   int64
		beh []DsStep
	}
	jobs := make(chan job, 256)
	var wg sync.WaitGroup
	var steps, replays int64
	for k := 0; k < c.Workers; k++ {
		wg.Add(1)
		go func() {
			defer wg.Done()
			for j := range jobs {
				for ci := range cfgs {
					dc := cfgs[ci]
					if st, what := replayDataset(j.beh, &dc); what != "" {
						c.report(&Violation{Pipeline: "dataset", Config: dc, Case: j.beh, Step: st, What: what, Tags: map[string]string{"outcome": "mismatch"}})
					}
					atomic.AddInt64(&replays, 1)
					atomic.AddInt64(&steps, int64(len(j.beh)))
				}
				var sb strings.Builder
				for i := range j.beh {
					fmt.Fprintf(&sb, "%v;", j.beh[i].Ev)
					c.addDistinct(sb.String())
				}
			}
		}()
	}
	var n int64
	var parseErr error
	o := TLCOpts{Module: "Gen_Dataset", Cfg: cfg, Purpose: purpose, Simulate: simulate, Num: num, Depth: depth + 1, Seed: c.Seed,
		Constants: fmt.Sprintf("sets=%d values=%s maxLen=%d depth=%d", nsets, values, maxLen, depth)}
	if simulate {
		o.Workers = 4
		o.Num = (num + 3) / 4
	}
	o.OnBeh = func(line []byte) {
		var beh []DsStep
		if err := json.Unmarshal(line, &beh); err != nil {
			if parseErr == nil {
				parseErr = fmt.Errorf("%v in %.300s", err, line)
			}
			return
		}
		if n < 2 {
			evs := []DsEvent{}
			for _, s := range beh {
				evs = append(evs, s.Ev)
			}
			c.addSample(map[string]interface{}{"pipeline": "Gen_Dataset behaviour", "events": evs})
		}
		jobs <- job{n, beh}
		n++
	}
	res := c.runTLC(o)
	close(jobs)
	wg.Wait()
	if parseErr != nil {
		infraFail("cannot parse behaviour: %v", parseErr)
	}
	if res.Violated != "" {
		infraFail("Gen_Dataset violated %s\n%s", res.Violated, res.ErrorText)
	}
	if n == 0 {
		infraFail("no behaviour emitted (%s)", purpose)
	}
	c.mu.Lock()
	c.Ev.Coverage.Traces += replays
	c.Ev.Coverage.StepsCompared += steps
	c.Ev.Coverage.Evaluations += replays
	c.Ev.Coverage.Configs += int64(len(cfgs))
	c.mu.Unlock()
	fmt.Printf("  [%s] %d behaviours x %d configurations replayed %.0fs\n", purpose, n, len(cfgs), time.Since(c.phaseStart).Seconds())
}

func (c *Ctx) runDatasetMC(values string, maxLen int, purpose string) {
	if !c.phase("MC " + purpose) {
		return
	}
	cfg := fmt.Sprintf(`SPECIFICATION Spec
CONSTANTS
  Sets = {1, 2}
  Values <- %s
  QDen = 8
  MaxLen = %d
  Ops = {"Add", "Merge", "Query"}
INVARIANTS D_Refines
PROPERTIES D_QueryKeepsBag D_MergeArg
VIEW View
CHECK_DEADLOCK FALSE
`, values, maxLen)
	res := c.runMC(TLCOpts{Module: "Dataset", Cfg: cfg, Purpose: purpose, Constants: fmt.Sprintf("2 datasets values=%s maxLen=%d", values, maxLen)})
	fmt.Printf("  [MC %s] %d distinct states: D_Refines D_QueryKeepsBag D_MergeArg hold %.0fs\n", purpose, res.Distinct, time.Since(c.phaseStart).Seconds())
}

// direction B: large datasets, q = k/(n-1) and its float neighbours; the order statistic is
// selected by the rank floor/ceil of the EXACT product q*(n-1) (big.Rat) - or of the float64
// product, which the property's wording equally allows when the two differ by rounding.
func (c *Ctx) runDatasetLarge(n int) {
	if !c.phase("large datasets") {
		return
	}
	rng := rand.New(rand.NewSource(c.Seed*977 + 3))
	var queries int64
	for it := 0; it < n && len(c.violations) == 0; it++ {
		size := []int{1, 2, 3, 7, 10, 101, 1000}[rng.Intn(7)]
		d := dataset.NewDataset()
		var vals []float64
		for i := 0; i < size; i++ {
			v := math.Round(rng.NormFloat64()*50) / 2
			if rng.Intn(10) == 0 && len(vals) > 0 {
				v = vals[rng.Intn(len(vals))]
			}
			vals = append(vals, v)
			d.Add(v)
			if rng.Intn(size/3+1) == 0 {
				d.Quantile(rng.Float64()) // interleaved query (sorts in place)
			}
		}
		sorted := append([]float64{}, vals...)
		sort.Float64s(sorted)
		check := func(q float64) {
			queries++
			lo, up := d.LowerQuantile(q), d.UpperQuantile(q)
			r := new(big.Rat).SetFloat64(q)
			r.Mul(r, big.NewRat(int64(size-1), 1))
			fl := new(big.Int).Div(r.Num(), r.Denom()).Int64()
			ce := fl
			if !r.IsInt() {
				ce = fl + 1
			}
			fp := q * float64(size-1)
			okLo := lo == sorted[fl] || lo == sorted[int(math.Floor(fp))]
			okUp := up == sorted[ce] || up == sorted[int(math.Ceil(fp))]
			if !okLo || !okUp {
				c.report(&Violation{Pipeline: "dataset-large", Case: map[string]interface{}{"values": vals, "q": q}, What: fmt.Sprintf("n=%d q=%v: Lower/UpperQuantile=%v/%v, order statistics at floor/ceil rank are %v/%v", size, q, lo, up, sorted[fl], sorted[ce]),
					Tags: map[string]string{"outcome": "mismatch"}})
			}
		}
		for k := 0; k < size; k++ {
			if size > 1 {
				q := float64(k) / float64(size-1)
				check(q)
				if q > 0 {
					check(math.Nextafter(q, 0))
				}
				if q < 1 {
					check(math.Nextafter(q, 1))
				}
			} else {
				check(rng.Float64())
			}
		}
		if d.Min() != sorted[0] || d.Max() != sorted[size-1] || d.Count != float64(size) {
			c.report(&Violation{Pipeline: "dataset-large", Case: map[string]interface{}{"values": vals}, What: "Min/Max/Count differ from the sorted values", Tags: map[string]string{"outcome": "mismatch"}})
		}
	}
	c.mu.Lock()
	c.Ev.Coverage.Evaluations += queries
	c.mu.Unlock()
	c.extra("large_dataset_queries", queries)
	fmt.Printf("  [large datasets] %d datasets, %d quantile queries at k/(n-1) and float neighbours %.0fs\n", n, queries, time.Since(c.phaseStart).Seconds())
}

func init() {
	checks["C20"] = func(c *Ctx) {
		c.Ev.Coverage.Rule = "TLC checks that the lazy-sort implementation-shaped Dataset.tla refines the multiset specification (D_Refines: Lower/UpperQuantile are the order statistics of rank floor/ceil of q(n-1), min, max, count, sum; D_QueryKeepsBag; D_MergeArg) for every interleaving of Add, Merge (also of a dataset with itself) and queries over 2 datasets, then emits every such history and long random ones; each is replayed on the real Dataset (values scaled by several dyadic factors; projections after every step or only at the end) comparing Lower/Upper/Quantile at q=a/8, NaN for empty and out-of-range q, Min, Max, Count, Sum with ==. Large datasets (up to 1000 values): q = k/(n-1) and both float neighbours against ranks computed with big.Rat."
		c.Ev.Coverage.CheckerCmd = "./check C20 " + c.Tier
		c.Ev.Assumptions = []string{"values are small integers and halves so sums are exact", "for q that is not a dyadic grid point the rank floor/ceil of either the exact product q(n-1) or its float64 rounding is accepted (they differ only when the product rounds across an integer)"}
		c.runDatasetMC("DValuesSmall", c.pick(4, 5), "2 datasets")
		c.runDatasetGen("DValuesSmall", 2, 6, c.pick(4, 5), false, 0, "exhaustive tree of add/merge/query")
		c.runDatasetGen("DValues", 2, 40, c.pick(14, 30), true, c.pick(2000, 50000), "simulated histories")
		c.runDatasetLarge(c.pick(300, 5000))
	}
}
