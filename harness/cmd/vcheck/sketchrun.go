package main

import (
	"encoding/json"
	"fmt"
	"strings"
	"sync"
	"sync/atomic"
	"time"
)

// SketchGen describes one TLC behaviour-generation run of Gen_Sketch.
type SketchGen struct {
	Init     []SketchInit
	Tokens   []int
	Weights  []int
	Factors  [][2]int
	Ops      []string
	Q, QDen  int
	Depth    int
	Simulate bool
	Num      int
}

func tlaSketchInit(in []SketchInit) string {
	var ks []string
	for i, s := range in {
		ks = append(ks, fmt.Sprintf("(%d :> NewSketch(%q, %d, %q, %d, %q, %d))", i+1, s.Variant, s.M, s.Pos.Kind, s.Pos.N, s.Neg.Kind, s.Neg.N))
	}
	return strings.Join(ks, " @@ ")
}

func (g *SketchGen) module() (name, text, cfg string) {
	fac := g.Factors
	if len(fac) == 0 {
		fac = [][2]int{{2, 1}}
	}
	wts := g.Weights
	if len(wts) == 0 {
		wts = []int{g.Q}
	}
	text = fmt.Sprintf(`---- MODULE RunGenSketch ----
EXTENDS Gen_Sketch
RSlots == 1..%d
RTokens == %s
RWeights == %s
RFactors == %s
ROps == %s
RInit == %s
====
`, len(g.Init), tlaSet(g.Tokens), tlaSet(wts), tlaPairs(fac), tlaStrSet(g.Ops), tlaSketchInit(g.Init))
	cfg = fmt.Sprintf(`INIT GenInit
NEXT GenNext
CONSTANTS
  Slots <- RSlots
  Q = %d
  QDen = %d
  Tokens <- RTokens
  Weights <- RWeights
  Factors <- RFactors
  Ops <- ROps
  InitSketches <- RInit
  MapToks = {1, 2}
  ScaleToks = {0, 1, 2, 3, 4, 5, 6}
  Depth = %d
  Lazy = %s
INVARIANT Emit
CHECK_DEADLOCK FALSE
`, g.Q, g.QDen, g.Depth, map[bool]string{true: "TRUE", false: "FALSE"}[g.Simulate])
	return "RunGenSketch", text, cfg
}

func (g *SketchGen) describe() string {
	return fmt.Sprintf("init=%+v tokens=%v weights=%v factors=%v ops=%v Q=%d QDen=%d depth=%d", g.Init, g.Tokens, g.Weights, g.Factors, g.Ops, g.Q, g.QDen, g.Depth)
}

func (g *SketchGen) maxKey() int {
	mk := 0
	for _, v := range g.Tokens {
		av := v
		if av < 0 {
			av = -av
		}
		if av >= 10 && av < 1000 {
			if k := (av - 10) / 2; k > mk {
				mk = k
			}
		}
	}
	return mk
}

// SketchMatrix is the replay configuration matrix of a check.
type SketchMatrix struct {
	Mappings    [][]MappingSpec // each entry: mapping per mapping token
	Reals       []string        // real store types to use for exact-kind stores
	Aspects     map[string]bool
	Modes       []string
	MidKeysOnly bool // only key embeddings around 1.0 (values must stay inside both mappings' ranges after scaling)
}

var allMappingKinds = []string{"log", "linear", "cubic"}

func mappingMatrix(alphas []float64, second *MappingSpec) [][]MappingSpec {
	var out [][]MappingSpec
	for _, k := range allMappingKinds {
		for _, a := range alphas {
			ms := []MappingSpec{{k, a}}
			if second != nil {
				ms = append(ms, *second)
			}
			out = append(out, ms)
		}
	}
	return out
}

func sketchConfigsFor(g *SketchGen, mx *SketchMatrix, thorough bool) []SketchCfg {
	hasColl := false
	for _, in := range g.Init {
		if in.Pos.Kind != "exact" || in.Neg.Kind != "exact" {
			hasColl = true
		}
	}
	modes := mx.Modes
	if len(modes) == 0 {
		modes = []string{"every", "final"}
	}
	var out []SketchCfg
	nslots := len(g.Init)
	for _, ms := range mx.Mappings {
		conc := concretizerFor(ms[0])
		kes := keyEmbeddingsFor(conc, g.maxKey(), hasColl, thorough)
		if mx.MidKeysOnly {
			var mid []keyEmbedding
			for _, ke := range kes {
				lo, hi := conc.m.Value(ke.idx(0)), conc.m.Value(ke.idx(g.maxKey()))
				if ke.Base > -2000 && ke.Base < 2000 && lo > 1e-100 && hi < 1e100 {
					mid = append(mid, ke)
				}
			}
			kes = mid
		}
		// the second mapping (if any) only ever receives refused merges or its own adds: require its bins to exist too
		nr := len(mx.Reals)
		nAssign := 1
		for i := 0; i < nslots; i++ {
			nAssign *= nr
		}
		// every assignment of real store types to the slots' positive stores (so that same-type pairs, which take
		// the stores' fast paths, occur as often as mixed ones); the negative stores are a rotation of it
		for ri := 0; ri < nAssign; ri++ {
			posReal := make([]string, nslots)
			negReal := make([]string, nslots)
			x := ri
			for s := 0; s < nslots; s++ {
				posReal[s] = mx.Reals[x%nr]
				negReal[s] = mx.Reals[(x%nr+ri/nr+s*(ri%2))%nr]
				x /= nr
			}
			for _, ke := range kes {
				ok := true
				for _, m2 := range ms[1:] {
					c2 := concretizerFor(m2)
					for k := 0; k <= g.maxKey(); k++ {
						if !c2.edges(ke.idx(k)).ok {
							ok = false
						}
					}
				}
				if !ok {
					continue
				}
				for _, mode := range modes {
					for pv := 0; pv < 2; pv++ {
						out = append(out, SketchCfg{Init: g.Init, Mappings: ms, PosReal: posReal, NegReal: negReal, Keys: ke,
							Q: g.Q, QDen: g.QDen, Mode: mode, Proto: pv, Aspects: mx.Aspects, Scales: scalesFor(ms[0])})
					}
				}
			}
		}
	}
	return out
}

func skEventsOnly(beh []SkStep) []SkEvent {
	out := make([]SkEvent, len(beh))
	for i := range beh {
		out[i] = beh[i].Ev
	}
	return out
}

// runSketchGen lets TLC emit behaviours of Gen_Sketch and replays each on real
// sketches under `per` configurations of the matrix.
func (c *Ctx) runSketchGen(g *SketchGen, mx *SketchMatrix, per int, purpose string) {
	if !c.phase(purpose) {
		return
	}
	cfgs := sketchConfigsFor(g, mx, !c.quick())
	if len(cfgs) == 0 {
		infraFail("no replay configuration for %s", purpose)
	}
	if per > len(cfgs) {
		per = len(cfgs)
	}
	name, text, cfg := g.module()
	type job struct {
		n   int64
		beh []SkStep
	}
	jobs := make(chan job, 256)
	var wg sync.WaitGroup
	var steps, replays int64
	for k := 0; k < c.Workers; k++ {
		wg.Add(1)
		go func() {
			defer wg.Done()
			for j := range jobs {
				for r := 0; r < per; r++ {
					ci := int(((j.n*int64(per)+int64(r))*7919 + c.Seed*104729) % int64(len(cfgs)))
					if ci < 0 {
						ci += len(cfgs)
					}
					sc := cfgs[ci]
					if mm := replaySketch(j.beh, &sc); mm != nil {
						c.report(&Violation{Pipeline: "sketch", Config: sc, Case: j.beh, Step: mm.Step, What: mm.What,
							Expected: mm.Pred, Actual: mm.Actual, Tags: mm.Tags})
					}
					atomic.AddInt64(&replays, 1)
					if sc.Mode == "every" {
						atomic.AddInt64(&steps, int64(len(j.beh)))
					} else {
						atomic.AddInt64(&steps, 1)
					}
				}
				prev := "init"
				for i := range j.beh {
					eb, _ := json.Marshal(j.beh[i].Ev)
					c.addDistinct(prev + "|" + string(eb))
					c.addExtraCount("replayed op:"+j.beh[i].Ev.Op, 1)
					prev = fmt.Sprintf("%v|%v|%v|%v|%v", j.beh[i].Pred[0].Bag, j.beh[i].Pred[0].Pos, j.beh[i].Pred[0].Neg, len(j.beh[i].Pred), i)
					if len(j.beh[i].Pred) > 1 {
						prev += fmt.Sprintf("|%v", j.beh[i].Pred[1].Bag)
					}
				}
			}
		}()
	}
	var n int64
	var parseErr error
	o := TLCOpts{Module: name, Cfg: cfg, Purpose: purpose, Extra: map[string]string{name + ".tla": text},
		Simulate: g.Simulate, Num: g.Num, Depth: g.Depth + 1, Seed: c.Seed, Constants: g.describe(), Timeout: 120 * time.Minute}
	if g.Simulate {
		o.Workers = 4
		o.Num = (g.Num + 3) / 4
	}
	o.OnBeh = func(line []byte) {
		var beh []SkStep
		if err := json.Unmarshal(line, &beh); err != nil {
			if parseErr == nil {
				parseErr = fmt.Errorf("%v in %.400s", err, line)
			}
			return
		}
		if n < 2 {
			c.addSample(map[string]interface{}{"pipeline": "Gen_Sketch behaviour (" + purpose + ")", "events": skEventsOnly(beh)})
		}
		jobs <- job{n, beh}
		n++
	}
	res := c.runTLC(o)
	close(jobs)
	wg.Wait()
	if parseErr != nil {
		infraFail("cannot parse behaviour: %v", parseErr)
	}
	if res.Violated != "" && res.Violated != "Emit" {
		infraFail("Gen_Sketch violated %s:\n%s", res.Violated, res.ErrorText)
	}
	if n == 0 {
		infraFail("TLC emitted no behaviour for %s (%s)\n%s", name, purpose, res.Output)
	}
	c.mu.Lock()
	c.Ev.Coverage.Traces += replays
	c.Ev.Coverage.StepsCompared += steps
	c.Ev.Coverage.Evaluations += replays
	c.Ev.Coverage.Configs += int64(len(cfgs))
	c.mu.Unlock()
	fmt.Printf("  [%s] %d behaviours x %d of %d configurations replayed (%d step comparisons) %.0fs\n", purpose, n, per, len(cfgs), steps, time.Since(c.phaseStart).Seconds())
}

// runSketchMC model-checks Sketch.tla with the given constants.
func (c *Ctx) runSketchMC(g *SketchGen, maxTotal int, invariants, props string, purpose string) {
	if !c.phase("MC " + purpose) {
		return
	}
	fac := g.Factors
	if len(fac) == 0 {
		fac = [][2]int{{2, 1}}
	}
	wts := g.Weights
	if len(wts) == 0 {
		wts = []int{g.Q}
	}
	text := fmt.Sprintf(`---- MODULE RunMCSketch ----
EXTENDS MC_Sketch
RSlots == 1..%d
RTokens == %s
RWeights == %s
RFactors == %s
ROps == %s
RInit == %s
====
`, len(g.Init), tlaSet(g.Tokens), tlaSet(wts), tlaPairs(fac), tlaStrSet(g.Ops), tlaSketchInit(g.Init))
	cfg := fmt.Sprintf(`SPECIFICATION Spec
CONSTANTS
  Slots <- RSlots
  Q = %d
  QDen = %d
  Tokens <- RTokens
  Weights <- RWeights
  Factors <- RFactors
  Ops <- ROps
  InitSketches <- RInit
  MapToks = {1, 2}
  ScaleToks = {0, 1}
  MaxTotal = %d
CONSTRAINT Bounded
VIEW View
INVARIANTS %s
PROPERTIES %s
CHECK_DEADLOCK FALSE
`, g.Q, g.QDen, maxTotal, invariants, props)
	res := c.runMC(TLCOpts{Module: "RunMCSketch", Cfg: cfg, Purpose: purpose, Extra: map[string]string{"RunMCSketch.tla": text},
		Constants: g.describe() + fmt.Sprintf(" maxTotal=%d quanta", maxTotal)})
	fmt.Printf("  [MC %s] %d distinct states, %d generated: %s hold %.0fs\n", purpose, res.Distinct, res.Generated, invariants, time.Since(c.phaseStart).Seconds())
}

const skInvAll = "TypeOK K_Content K_Merge K_Rank K_Ends K_Monotone X_Stats"
const skPropsAll = "K_Refused K_OnlyReceiverChanges K_ReadOnly K_ClearIsInit K_Reweight K_Copy"

func plainExact(n int, variant string) []SketchInit {
	out := make([]SketchInit, n)
	for i := range out {
		out[i] = SketchInit{Variant: variant, M: 1, Pos: ModelKind{"exact", 0}, Neg: ModelKind{"exact", 0}}
	}
	return out
}
