package main

import "math"

func init() { checks["C17"] = checkC17 }

// scale factor tokens of ChangeMap events: 0 is the factor 1
func scalesFor(m1 MappingSpec) []float64 {
	g := m1.build().ToProto().Gamma
	return []float64{1, 0.5, 2, 1e-3, 1e3, 1 / g, g}
}

// C17 - changing mapping or unit conserves weight and stays within combined accuracy
func checkC17(c *Ctx) {
	c.Ev.Coverage.Rule = "Sketch.tla's ChangeMap action fixes the structural part (result carries the requested mapping and the source's variant, source slot unchanged, equal mapping and scale 1 = exact copy, exact count kept); TLC emits histories that build sketches by adds/merges and convert them (all ordered pairs of mapping kinds, alphas {0.005,0.01,0.05}: coarser, finer, equal; scales {1, 1/2, 2, 1e-3, 1e3, 1/gamma, gamma}; every store kind; both variants). At each conversion the harness checks against the REAL source: source snapshot unchanged, zero weight equal, total weight within 1e-9, no bin of negative weight (read through ToProto), locality (at every target-bin boundary the weight below lies between the weight of the source bins entirely below and of those starting below, up to 1e-9 slivers), exact statistics rescaled by the factor, and every q=a/8 answer of the result within [(1-a2)/(1+a1), (1+a2)/(1-a1)] of scale x the estimate of a source bin that the specification allows at that rank for the source."
	c.Ev.Coverage.CheckerCmd = "./check C17 " + c.Tier
	c.Ev.Assumptions = []string{"the proportional split itself is float arithmetic and is not modelled: its result is checked by the stated numeric relation (R) against the real source", "values well inside both mappings' ranges after scaling (bins around 1.0)", "slivers up to 1e-9 of the total weight"}
	c.Ev.Coverage.TrustedBase = []string{"numeric relation R for C17 (combined-accuracy bound, cumulative locality sandwich, 1e-9 slack)"}
	two := []SketchInit{{"plain", 1, ex0, ex0}, {"plain", 1, ex0, ex0}}
	g := &SketchGen{Init: two, Tokens: []int{10, -11, 0}, Weights: []int{2, 4}, Ops: []string{"AddW", "ChangeMap", "Clear"}, Q: 4, QDen: 8}
	c.runSketchMC(g, c.pick(8, 12), "TypeOK K_Content K_Rank", "K_OnlyReceiverChanges K_ClearIsInit", "2 sketches with mapping changes")
	alphas := []float64{0.005, 0.01, 0.05}
	var maps [][]MappingSpec
	for _, k1 := range allMappingKinds {
		for _, a1 := range alphas {
			for _, k2 := range allMappingKinds {
				for _, a2 := range alphas {
					if k1 == k2 && a1 == a2 {
						continue // tokens 1 and 2 must denote different mappings; the equal-mapping case is ChangeMap to the source's own token
					}
					maps = append(maps, []MappingSpec{{k1, a1}, {k2, a2}})
				}
			}
		}
	}
	mx := &SketchMatrix{Mappings: maps, Reals: exactRealKinds, Modes: []string{"every"}, Aspects: map[string]bool{"cm": true, "cm-stats": true, "pure": true}, MidKeysOnly: true}
	tree := &SketchGen{Init: two, Tokens: []int{10, 13, -11, 0}, Weights: []int{4, 6}, Ops: []string{"AddW", "ChangeMap"}, Q: 4, QDen: 8, Depth: 3}
	c.runSketchGen(tree, mx, c.pick(8, 16), "exhaustive tree with mapping changes")
	for _, variant := range []string{"plain", "exact"} {
		init := []SketchInit{{variant, 1, ex0, ex0}, {variant, 1, ex0, ex0}, {variant, 2, ex0, ex0}}
		sim := &SketchGen{Init: init, Tokens: append(append([]int{}, tokBins3...), 0, 16, 17, -16, -17), Weights: []int{1, 2, 4, 8, 12, 132},
			Ops: []string{"Add", "AddW", "Merge", "Clear", "ChangeMap", "Copy"}, Q: 4, QDen: 8, Depth: c.pick(10, 20), Simulate: true, Num: c.pick(1500, 15000)}
		c.runSketchGen(sim, mx, c.pick(8, 16), "simulated histories with mapping changes, "+variant)
	}
	_ = math.Pi
}
