---------------------------- MODULE Gen_Dataset ----------------------------
(* Behaviour generation for Dataset.tla: histories with the predicted answers of every dataset after every step. *)
EXTENDS Dataset, Json
CONSTANTS Depth, Lazy
VARIABLE hist

GenInit == Init /\ hist = <<>>
PredOf(D) == [d \in Sets |-> Obs(D[d])]
GenNext ==
  /\ Len(hist) < Depth
  /\ IF Lazy /\ Len(hist) = Depth - 1
     THEN last' = Ev("Query", 1, 0, 0) /\ ds' = ApplyEvent(ds, last') /\ UNCHANGED bag
     ELSE Next
  /\ hist' = Append(hist, [ev |-> last', pred |-> IF Lazy THEN <<>> ELSE PredOf(ds')])
WithPreds(h) ==
  LET S[k \in 0..Len(h)] == IF k = 0 THEN [d \in Sets |-> NewDS] ELSE ApplyEvent(S[k - 1], h[k].ev)
  IN [k \in 1..Len(h) |-> [ev |-> h[k].ev, pred |-> PredOf(S[k])]]
Emit == (Len(hist) = Depth) => PrintT(<<"BEH", ToJson(IF Lazy THEN WithPreds(hist) ELSE hist)>>)

=============================================================================
