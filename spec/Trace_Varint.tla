---------------------------- MODULE Trace_Varint ----------------------------
(* Direction B for C18: bytes produced by the REAL encoders (and their size functions) for values
   drawn by the Go driver are validated against Varint.tla. *)
EXTENDS Varint, Json, IOUtils

VARIABLE l
Trace == ndJsonDeserialize(IOEnv.VERIF_TRACE)
TraceInit == input = <<>> /\ l = 1
TraceNext == l <= Len(Trace) /\ l' = l + 1 /\ input' = Trace[l].bytes
FromBits(s) == [i \in 0..63 |-> s[i + 1]]
RealEncodingMatches ==
  l > 1 =>
    LET e == Trace[l - 1]
        w == FromBits(e.bits)
    IN CASE e.kind = "u" -> e.bytes = EncU(w) /\ e.size = SizeU(w) /\ DecU(e.bytes) = <<TRUE, w, Len(e.bytes)>>
         [] e.kind = "s" -> e.bytes = EncS(w) /\ e.size = SizeS(w) /\ DecS(e.bytes) = <<TRUE, w, Len(e.bytes)>>
         [] e.kind = "f" -> e.bytes = EncVF(w) /\ e.size = SizeVF(w) /\ DecVF(e.bytes) = <<TRUE, w, Len(e.bytes)>>
=============================================================================
