-------------------------------- MODULE Wire --------------------------------
(***************************************************************************)
(* The documented binary format of an encoded sketch (comments of          *)
(* ddsketch/encoding/flag.go): a stream is a sequence of flagged BLOCKS.   *)
(* Properties C06 (encodings decode to the encoded content, concatenation  *)
(* = merge), C07 (every well-formed stream, blocks in any order, any of    *)
(* the three bin layouts, negative/zero/large strides, repeated indexes    *)
(* and blocks, decodes to the content the documentation assigns to it;     *)
(* statistics blocks are ignored by the plain decoder) and C08 (truncated, *)
(* unknown-flag, mapping-mismatch and mapping-less streams are errors).    *)
(*                                                                         *)
(* The state machine is a PRODUCER appending one block per step; every     *)
(* reachable state is a stream.  Decode gives the documented meaning of a  *)
(* stream for a plain and for an exact-statistics decoder and for target   *)
(* stores of several kinds (collapsing targets fold, see StoreOps).        *)
(* Truncation is modelled at block granularity: a prefix of k complete     *)
(* blocks decodes like that shorter stream; a cut strictly inside a block  *)
(* must be an error (the Go harness cuts the serialised stream at every    *)
(* byte and knows the block boundaries).                                   *)
(***************************************************************************)
EXTENDS StoreOps, TLC

CONSTANTS
  Q,          \* quanta per unit weight
  Alphabet,   \* set of blocks the producer may append
  MaxBlocks   \* maximum stream length

VARIABLE stream
vars == <<stream>>

(***************************************************************************)
(* Blocks (uniform records).                                               *)
(*  t = "zero":  w      weight of the zero bucket                          *)
(*  t = "map":   m      mapping token (which mapping: harness config)      *)
(*  t = "bins":  side (1 | -1), layout                                     *)
(*       "idc"  index deltas and counts:  ix = deltas, cn = counts         *)
(*       "id"   index deltas, counts all 1: ix = deltas                    *)
(*       "cc"   contiguous counts: ix = <<first index, stride>>, cn        *)
(*  t = "stat":  layout = "count" | "sum" | "min" | "max",  w = value      *)
(*  t = "unk":   m = which undefined flag byte (harness table)             *)
(***************************************************************************)
Blk(t, side, layout, ix, cn, w, m) ==
  [t |-> t, side |-> side, layout |-> layout, ix |-> ix, cn |-> cn, w |-> w, m |-> m]

ZeroB(w)  == Blk("zero", 0, "", <<>>, <<>>, w, 0)
MapB(m)   == Blk("map", 0, "", <<>>, <<>>, 0, m)
IdcB(side, deltas, counts) == Blk("bins", side, "idc", deltas, counts, 0, 0)
IdB(side, deltas) == Blk("bins", side, "id", deltas, <<>>, 0, 0)
CcB(side, first, stride, counts) == Blk("bins", side, "cc", <<first, stride>>, counts, 0, 0)
StatB(kind, v) == Blk("stat", 0, kind, <<>>, <<>>, v, 0)
UnkB(which) == Blk("unk", 0, "", <<>>, <<>>, 0, which)

\* the documented content of a bins block: the sequence of <<index, weight>> it adds, in order
RECURSIVE PrefixSums(_, _)
PrefixSums(d, acc) == IF d = <<>> THEN <<>> ELSE <<acc + Head(d)>> \o PrefixSums(Tail(d), acc + Head(d))

BinsOf(b) ==
  CASE b.layout = "idc" -> LET ix == PrefixSums(b.ix, 0) IN [j \in 1..Len(ix) |-> <<ix[j], b.cn[j]>>]
    [] b.layout = "id"  -> LET ix == PrefixSums(b.ix, 0) IN [j \in 1..Len(ix) |-> <<ix[j], Q>>]
    [] b.layout = "cc"  -> [j \in 1..Len(b.cn) |-> <<b.ix[1] + (j - 1) * b.ix[2], b.cn[j]>>]

RECURSIVE AddPairs(_, _)
AddPairs(s, ps) == IF ps = <<>> THEN s ELSE AddPairs(ApplyAdd(s, Head(ps)[1], Head(ps)[2]), Tail(ps))

-----------------------------------------------------------------------------
(* Decoding.  A decoder state: mapping token (0 = none yet), the two       *)
(* stores of the target sketch, zero weight, error class, and for the      *)
(* exact-statistics decoder the decoded count and whether min/max arrived. *)

DecInit(m0, posKind, posN, negKind, negN) ==
  [m |-> m0, pos |-> NewStore(posKind, posN), neg |-> NewStore(negKind, negN), zero |-> 0, err |-> "",
   xcnt |-> 0, nstat |-> 0]

DecStep(d, b) ==
  IF d.err # "" THEN d
  ELSE CASE b.t = "zero" -> [d EXCEPT !.zero = d.zero + b.w]
    [] b.t = "map"  -> IF d.m # 0 /\ d.m # b.m THEN [d EXCEPT !.err = "mismatch"] ELSE [d EXCEPT !.m = b.m]
    [] b.t = "bins" -> IF b.side = 1 THEN [d EXCEPT !.pos = AddPairs(d.pos, BinsOf(b))]
                                      ELSE [d EXCEPT !.neg = AddPairs(d.neg, BinsOf(b))]
    [] b.t = "stat" -> [d EXCEPT !.nstat = d.nstat + 1,
                                 !.xcnt = IF b.layout = "count" THEN d.xcnt + b.w ELSE d.xcnt]
    [] b.t = "unk"  -> [d EXCEPT !.err = "unknown"]

RECURSIVE DecAll(_, _)
DecAll(d, s) == IF s = <<>> THEN d ELSE DecAll(DecStep(d, Head(s)), Tail(s))

DecEmpty(d) == d.zero = 0 /\ IsEmptyMap(d.pos.bins) /\ IsEmptyMap(d.neg.bins)

\* plain decoder (DecodeDDSketch / DDSketch.DecodeAndMergeWith): statistics blocks are skipped
DecodePlain(d0, s) ==
  LET d == DecAll(d0, s)
  IN IF d.err = "" /\ d.m = 0 THEN [d EXCEPT !.err = "missing-mapping"] ELSE d

\* exact-statistics decoder: additionally needs the statistics when the content is not empty
DecodeExact(d0, s) ==
  LET d == DecodePlain(d0, s)
  IN IF d.err = "" /\ d.xcnt = 0 /\ ~DecEmpty(d) THEN [d EXCEPT !.err = "missing-statistics"] ELSE d

-----------------------------------------------------------------------------
Init == stream = <<>>

Next ==
  /\ Len(stream) < MaxBlocks
  /\ \E b \in Alphabet : stream' = Append(stream, b)

Spec == Init /\ [][Next]_vars

-----------------------------------------------------------------------------
(* Invariants over every stream *)

Fresh0 == DecInit(0, "exact", 0, "exact", 0)
Content(d) == <<d.m, d.pos.bins, d.neg.bins, d.zero>>

NoError(s) == \A i \in 1..Len(s) : s[i].t # "unk"
MapsOf(s) == {s[i].m : i \in {j \in 1..Len(s) : s[j].t = "map"}}

\* C07: block order is irrelevant for the decoded content (non-collapsing targets)
W_OrderIrrelevant ==
  (Len(stream) >= 2 /\ DecodePlain(Fresh0, stream).err = "") =>
    \A i \in 1..(Len(stream) - 1) :
      LET sw == [j \in 1..Len(stream) |-> IF j = i THEN stream[i + 1] ELSE IF j = i + 1 THEN stream[i] ELSE stream[j]]
      IN Content(DecodePlain(Fresh0, sw)) = Content(DecodePlain(Fresh0, stream))

\* C07: the plain decoder ignores statistics blocks
W_StatsIgnoredByPlain ==
  LET ns == SelectSeq(stream, LAMBDA b : b.t # "stat")
  IN /\ DecodePlain(Fresh0, ns).err = DecodePlain(Fresh0, stream).err
     /\ Content(DecodePlain(Fresh0, ns)) = Content(DecodePlain(Fresh0, stream))

\* C06: a concatenation decodes to the merge of its parts; decoding into a non-empty sketch is merging
W_ConcatIsMerge ==
  \A k \in 0..Len(stream) :
    LET a == SubSeq(stream, 1, k)
        b == SubSeq(stream, k + 1, Len(stream))
        da == DecAll(Fresh0, a)
        dab == DecAll(Fresh0, stream)
    IN (dab.err = "" /\ Cardinality(MapsOf(stream)) <= 1) =>
         LET db == DecAll(Fresh0, b) IN
           /\ dab.pos.bins = MergeM(da.pos.bins, db.pos.bins)
           /\ dab.neg.bins = MergeM(da.neg.bins, db.neg.bins)
           /\ dab.zero = da.zero + db.zero
           /\ DecAll(da, b) = dab

\* C08: classes of errors
W_Errors ==
  LET d == DecodePlain(Fresh0, stream) IN
    /\ (~NoError(stream)) => d.err # ""
    /\ (NoError(stream) /\ MapsOf(stream) = {}) => d.err = "missing-mapping"
    /\ (NoError(stream) /\ Cardinality(MapsOf(stream)) > 1) => d.err = "mismatch"
    /\ (NoError(stream) /\ Cardinality(MapsOf(stream)) = 1) => d.err = ""
    \* a receiver that already has a (different) mapping refuses the stream's mapping
    /\ \A m \in MapsOf(stream) : \A m0 \in {1, 2, 3} \ {m} : DecodePlain(DecInit(m0, "exact", 0, "exact", 0), stream).err # ""
    \* a supplied mapping makes a mapping-less stream decodable
    /\ (NoError(stream) /\ MapsOf(stream) = {}) => DecodePlain(DecInit(1, "exact", 0, "exact", 0), stream).err = ""

\* C05/C06: decoding into a bounded store yields the folded content
W_FoldedTargets ==
  LET d  == DecAll(Fresh0, stream)
      dl == DecAll(DecInit(0, "low", 2, "high", 2), stream)
  IN d.err = "" =>
       /\ dl.pos.bins = FoldLow(d.pos.bins, 2)
       /\ dl.neg.bins = FoldHigh(d.neg.bins, 2)
       /\ dl.zero = d.zero

=============================================================================
