------------------------------- MODULE Varint -------------------------------
(***************************************************************************)
(* The variable-length codecs of ddsketch/encoding/encoding.go (C18),      *)
(* transcribed as the byte loops they are.  TLC integers are 32 bit, so a  *)
(* 64-bit word is a function [0..63 -> {0,1}] (bit i has weight 2^i); a    *)
(* byte is an integer 0..255.                                              *)
(*                                                                         *)
(*  uvarint64 : 7 bits at a time from the least significant end, high bit  *)
(*              = continuation; at most 9 bytes, the ninth carries 8 bits. *)
(*  varint64  : zig-zag, then uvarint64.                                   *)
(*  varfloat64: on the transformed word x = bits(v+1) - bits(1) (float     *)
(*              arithmetic is outside TLA+: the harness applies it),       *)
(*              rotate left by 6, then 7 bits at a time from the MOST      *)
(*              significant end, stopping when the rest is zero.           *)
(* The state machine appends one input byte per step (all byte strings up  *)
(* to a length over an alphabet); decoders are evaluated on every string.  *)
(***************************************************************************)
EXTENDS Integers, Sequences, FiniteSets, TLC

CONSTANTS ByteAlphabet, MaxLen

VARIABLE input
vars == <<input>>

Bit == {0, 1}
Idx == 0..63
Zero64 == [i \in Idx |-> 0]

Pow2(n) == IF n = 0 THEN 1 ELSE IF n = 1 THEN 2 ELSE IF n = 2 THEN 4 ELSE IF n = 3 THEN 8 ELSE IF n = 4 THEN 16
           ELSE IF n = 5 THEN 32 ELSE IF n = 6 THEN 64 ELSE IF n = 7 THEN 128 ELSE 256

Shr(w, k) == [i \in Idx |-> IF i + k <= 63 THEN w[i + k] ELSE 0]
Shl(w, k) == [i \in Idx |-> IF i - k >= 0 THEN w[i - k] ELSE 0]
RotL(w, k) == [i \in Idx |-> w[(i - k + 64) % 64]]
RotR(w, k) == [i \in Idx |-> w[(i + k) % 64]]
Xor(a, b) == [i \in Idx |-> (a[i] + b[i]) % 2]
Or(a, b) == [i \in Idx |-> IF a[i] + b[i] > 0 THEN 1 ELSE 0]
IsZero(w) == \A i \in Idx : w[i] = 0

\* value of bits lo..hi as an integer (at most 8 bits)
Field(w, lo, n) == LET f[k \in 0..n] == IF k = 0 THEN 0 ELSE f[k - 1] + w[lo + k - 1] * Pow2(k - 1) IN f[n]
\* a byte (0..255) placed at bit position lo
ByteAt(b, lo) == [i \in Idx |-> IF i >= lo /\ i < lo + 8 THEN (b \div Pow2(i - lo)) % 2 ELSE 0]
\* the n low bits of a byte placed at lo
BitsAt(b, n, lo) == [i \in Idx |-> IF i >= lo /\ i < lo + n THEN (b \div Pow2(i - lo)) % 2 ELSE 0]

AboveIsZero(w, k) == \A i \in k..63 : w[i] = 0     \* w < 2^k

-----------------------------------------------------------------------------
(* EncodeUvarint64 *)
RECURSIVE EncULoop(_, _)
EncULoop(w, i) ==
  IF i = 8 THEN <<Field(w, 0, 8)>>                       \* ninth byte: 8 bits, no continuation
  ELSE IF AboveIsZero(w, 7) THEN <<Field(w, 0, 7)>>
  ELSE <<Field(w, 0, 7) + 128>> \o EncULoop(Shr(w, 7), i + 1)

EncU(w) == EncULoop(w, 0)

(* DecodeUvarint64: <<ok, word, consumed>>; ok = FALSE is io.EOF (nothing consumed) *)
RECURSIVE DecULoop(_, _, _, _)
DecULoop(b, i, x, s) ==
  IF Len(b) <= i THEN <<FALSE, Zero64, 0>>
  ELSE LET n == b[i + 1] IN
       IF n < 128 \/ i = 8 THEN <<TRUE, Or(x, IF i = 8 THEN ByteAt(n, s) ELSE BitsAt(n, 7, s)), i + 1>>
       ELSE DecULoop(b, i + 1, Or(x, BitsAt(n % 128, 7, s)), s + 7)

DecU(b) == DecULoop(b, 0, Zero64, 0)

\* zig-zag: (v << 1) ^ (v >> 63)   (arithmetic shift: all ones if negative)
ZigZag(w) == Xor(Shl(w, 1), [i \in Idx |-> w[63]])
UnZigZag(u) == Xor(Shr(u, 1), [i \in Idx |-> u[0]])

EncS(w) == EncU(ZigZag(w))
DecS(b) == LET r == DecU(b) IN <<r[1], UnZigZag(r[2]), r[3]>>

\* int32 range test on a signed word: bits 31..63 all equal
FitsInt32(w) == \A i \in 31..63 : w[i] = w[63]

-----------------------------------------------------------------------------
(* EncodeVarfloat64 on the transformed word x (before rotation) *)
RECURSIVE EncVFLoop(_, _)
EncVFLoop(x, i) ==
  IF i = 8 THEN <<Field(x, 56, 8)>>
  ELSE LET n  == Field(x, 57, 7)
           x2 == Shl(x, 7)
       IN IF IsZero(x2) THEN <<n>> ELSE <<n + 128>> \o EncVFLoop(x2, i + 1)

EncVF(x) == EncVFLoop(RotL(x, 6), 0)

RECURSIVE DecVFLoop(_, _, _, _)
DecVFLoop(b, i, x, s) ==
  IF Len(b) <= i THEN <<FALSE, Zero64, 0>>
  ELSE LET n == b[i + 1] IN
       IF i = 8 THEN <<TRUE, RotR(Or(x, ByteAt(n, 0)), 6), 9>>
       ELSE IF n < 128 THEN <<TRUE, RotR(Or(x, BitsAt(n, 7, s)), 6), i + 1>>
       ELSE DecVFLoop(b, i + 1, Or(x, BitsAt(n % 128, 7, s)), s - 7)

DecVF(b) == DecVFLoop(b, 0, Zero64, 57)

-----------------------------------------------------------------------------
(* size functions: tables indexed by leading / trailing zero count *)
LeadingZeros(w) == IF IsZero(w) THEN 64 ELSE 63 - (CHOOSE i \in Idx : w[i] = 1 /\ \A j \in (i + 1)..63 : w[j] = 0)
TrailingZeros(w) == IF IsZero(w) THEN 64 ELSE CHOOSE i \in Idx : w[i] = 1 /\ \A j \in 0..(i - 1) : w[j] = 0

\* bytes needed for a word with lz leading zeros: ceil((64-lz)/7), at least 1, at most 9
SizeU(w) == LET bl == 64 - LeadingZeros(w)
                n  == (bl + 6) \div 7
            IN IF n = 0 THEN 1 ELSE IF n > 9 THEN 9 ELSE n
SizeS(w) == SizeU(ZigZag(w))
\* varfloat: significant bits from the top of the rotated word: 64 - tz
SizeVF(x) == LET sb == 64 - TrailingZeros(RotL(x, 6))
                 n  == (sb + 6) \div 7
             IN IF n = 0 THEN 1 ELSE IF n > 9 THEN 9 ELSE n

-----------------------------------------------------------------------------
(* word corpus: every bit-length class x fill pattern *)
Ones(k) == [i \in Idx |-> IF i < k THEN 1 ELSE 0]                     \* 2^k - 1
Single(k) == [i \in Idx |-> IF i = k THEN 1 ELSE 0]                   \* 2^k
SinglePlus1(k) == [i \in Idx |-> IF i = k \/ i = 0 THEN 1 ELSE 0]     \* 2^k + 1
Alt(k) == [i \in Idx |-> IF i < k /\ i % 2 = 1 THEN 1 ELSE 0]         \* 1010...
AltTop(k) == [i \in Idx |-> IF i >= 64 - k /\ i % 2 = 0 THEN 1 ELSE 0] \* patterns growing from the top (varfloat lengths)
TopOnes(k) == [i \in Idx |-> IF i >= 64 - k THEN 1 ELSE 0]
Neg(w) == [i \in Idx |-> 1 - w[i]]                                     \* bitwise complement (-w-1)

Corpus ==
  {Ones(k) : k \in 0..64} \cup {Single(k) : k \in 0..63} \cup {SinglePlus1(k) : k \in 1..63}
  \cup {Alt(k) : k \in 2..64} \cup {AltTop(k) : k \in 1..64} \cup {TopOnes(k) : k \in 1..63}
  \cup {Neg(Single(k)) : k \in 0..63} \cup {Neg(Ones(k)) : k \in 1..63}

Trailers == {<<>>, <<0>>, <<255, 128>>, <<128>>}

IsStrictPrefixEOF(Dec(_), bytes) ==
  \A k \in 0..(Len(bytes) - 1) : Dec(SubSeq(bytes, 1, k))[1] = FALSE /\ Dec(SubSeq(bytes, 1, k))[3] = 0

\* C18 over the corpus (checked once, in the initial state)
V_Corpus ==
  \A w \in Corpus :
    LET eu == EncU(w)
        es == EncS(w)
        ef == EncVF(w)
    IN /\ Len(eu) >= 1 /\ Len(eu) <= 9 /\ Len(eu) = SizeU(w)
       /\ Len(es) >= 1 /\ Len(es) <= 9 /\ Len(es) = SizeS(w)
       /\ Len(ef) >= 1 /\ Len(ef) <= 9 /\ Len(ef) = SizeVF(w)
       /\ \A t \in Trailers :
            /\ DecU(eu \o t) = <<TRUE, w, Len(eu)>>
            /\ DecS(es \o t) = <<TRUE, w, Len(es)>>
            /\ DecVF(ef \o t) = <<TRUE, w, Len(ef)>>
       /\ IsStrictPrefixEOF(DecU, eu) /\ IsStrictPrefixEOF(DecS, es) /\ IsStrictPrefixEOF(DecVF, ef)
       /\ UnZigZag(ZigZag(w)) = w

-----------------------------------------------------------------------------
Init == input = <<>>
Next == Len(input) < MaxLen /\ \E b \in ByteAlphabet : input' = Append(input, b)
Spec == Init /\ [][Next]_vars

\* every byte string: decoders consume at most 9 bytes, never more than given, and re-encoding
\* the decoded word gives back the consumed bytes whenever those are a canonical encoding
V_Strings ==
  LET ru == DecU(input)
      rf == DecVF(input)
  IN /\ ru[3] <= 9 /\ ru[3] <= Len(input) /\ rf[3] <= 9 /\ rf[3] <= Len(input)
     /\ ru[1] => DecU(EncU(ru[2]))[2] = ru[2]
     /\ rf[1] => DecVF(EncVF(rf[2]))[2] = rf[2]
     /\ (~ru[1]) => (\A k \in 1..Len(input) : k <= 9 => input[k] >= 128) /\ Len(input) < 9
     /\ (ru[1] = rf[1]) /\ (ru[3] = rf[3])      \* both codecs frame the same way

Bytes256 == 0..255
BytesEdge == {0, 127, 128, 255}
BytesCont == {128, 255, 129}
=============================================================================
