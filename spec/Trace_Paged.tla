----------------------------- MODULE Trace_Paged -----------------------------
(***************************************************************************)
(* Trace validation of PagedImpl.tla with the REAL constants (page length  *)
(* 32, page-slice growth 8): recorded executions of real                   *)
(* BufferedPaginatedStore objects, each event carrying the layout of the   *)
(* receiver read through the build-tag-guarded hook store.VerifLayout      *)
(* (buffer length and capacity, compaction trigger, length of the page     *)
(* slice, number of allocated pages, minPageIndex).  The capacity Go's     *)
(* append chooses is not part of the model: it is bound from the log.      *)
(* Events that append several entries at once (merges, decodes) make the   *)
(* receiver's layout untracked from then on (until it is overwritten by a  *)
(* copy of a tracked store or the trace is reset).                         *)
(***************************************************************************)
EXTENDS PagedImpl, Json, IOUtils

VARIABLES l, rt, trk

Trace == ndJsonDeserialize(IOEnv.VERIF_TRACE)
TSlots == 1..4

TraceInit ==
  /\ pg = [o \in TSlots |-> NewPaged]
  /\ am = [o \in TSlots |-> EmptyMap]
  /\ rt = [o \in TSlots |-> "x"]
  /\ trk = [o \in TSlots |-> FALSE]
  /\ l = 1

Recv(e) == IF e.op \in {"Merge", "EncDec", "Proto", "CopyTo"} THEN e.t ELSE e.s

AbsApply(A, e) ==
  CASE e.op \in {"Add", "AddWithCount", "AddBin", "AddRepeat"} -> [A EXCEPT ![e.s] = Put(A[e.s], e.i, e.w)]
    [] e.op \in {"Merge", "EncDec", "Proto"} -> [A EXCEPT ![e.t] = MergeM(A[e.t], A[e.s])]
    [] e.op = "CopyTo" -> [A EXCEPT ![e.t] = A[e.s]]
    [] e.op = "Clear"  -> [A EXCEPT ![e.s] = EmptyMap]
    [] e.op = "Reweight" -> [A EXCEPT ![e.s] = ScaleM(A[e.s], e.num, e.den)]
    [] e.op = "Read"   -> A

\* the driver projects the receiver (and the argument) after every call: ForEach / KeyAtRank sort the buffer in place
Observe(P, S) == [o \in TSlots |-> IF o \in S THEN SortBuffer(P[o]) ELSE P[o]]

ImplApply(P, e) ==
  CASE e.op \in {"Add", "AddWithCount", "AddBin"} -> [P EXCEPT ![e.s] = ImplAddW(P[e.s], e.i, e.w, Unit, e.lay.bcap)]
    [] e.op = "CopyTo" -> [P EXCEPT ![e.t] = ImplCopy(P[e.s])]
    [] e.op = "Clear"  -> [P EXCEPT ![e.s] = ImplClear(P[e.s])]
    [] e.op = "Reweight" -> [P EXCEPT ![e.s] = ImplReweight(P[e.s], e.num, e.den, Unit)]
    [] e.op = "Read"   -> [P EXCEPT ![e.s] = Compact(P[e.s])]          \* the driver's Read encodes the store: Encode compacts
    [] e.op = "EncDec" -> [P EXCEPT ![e.s] = Compact(P[e.s])]          \* ... and so does encoding the SOURCE of a decode
    [] OTHER -> P

TraceNext ==
  /\ l <= Len(Trace)
  /\ LET e == Trace[l] IN
       IF e.op = "reset"
       THEN /\ pg' = [o \in TSlots |-> NewPaged]
            /\ am' = [o \in TSlots |-> EmptyMap]
            /\ rt' = [o \in TSlots |-> e.real[o]]
            /\ trk' = [o \in TSlots |-> e.real[o] = "paged"]
       ELSE /\ am' = AbsApply(am, e)
            /\ pg' = Observe(ImplApply(pg, e), {Recv(e)} \cup (IF e.t # 0 THEN {e.s} ELSE {}))
            /\ rt' = IF e.op = "CopyTo" THEN [rt EXCEPT ![e.t] = rt[e.s]] ELSE rt
            /\ trk' = CASE e.op = "CopyTo" -> [trk EXCEPT ![e.t] = trk[e.s]]
                        \* (Clear keeps capacity, trigger and the page slice: an untracked store stays untracked)
                        [] e.op \in {"Merge", "EncDec", "Proto", "AddRepeat"} -> [trk EXCEPT ![Recv(e)] = FALSE]
                        [] OTHER -> trk
  /\ l' = l + 1

AllocatedPages(p) == Cardinality({k \in 1..Len(p.pages) : p.pages[k] # <<>>})

LayoutMatches ==
  l > 1 =>
    LET e == Trace[l - 1] IN
      (e.op # "reset" /\ trk[Recv(e)]) =>
        LET p == pg[Recv(e)] IN
          /\ e.lay.blen = Len(p.buf)
          /\ e.lay.bcap = p.cap
          /\ e.lay.trig = p.trig
          /\ e.lay.plen = Len(p.pages)
          /\ e.lay.palloc = AllocatedPages(p)
          /\ e.lay.punused = (p.minPage = UNUSED)
          /\ (p.minPage # UNUSED) => e.lay.pmin = p.minPage
          /\ AbsBins(p, Unit) = am[Recv(e)]
=============================================================================
