----------------------------- MODULE Trace_Paged -----------------------------
(***************************************************************************)
(* Trace validation of PagedImpl.tla with the REAL constants (page length  *)
(* 32, page-slice growth 8): recorded executions of real                   *)
(* BufferedPaginatedStore objects, each event carrying the layout of the   *)
(* receiver read through the build-tag-guarded hook store.VerifLayout      *)
(* (buffer length and capacity, compaction trigger, length of the page     *)
(* slice, number of allocated pages, minPageIndex).  The capacity Go's     *)
(* append chooses follows PagedImpl!GoCap (an environment model of the Go  *)
(* runtime, checked here against every logged capacity), so that calls     *)
(* which append many entries (AddRepeat, MergeWith, DecodeAndMergeWith of  *)
(* a paginated store's encoding) can be followed step by step.  A receiver *)
(* becomes untracked only where the order of the appended entries is not   *)
(* determined (argument is a sparse store: map iteration order; protobuf   *)
(* messages; arguments that are themselves untracked), until it is         *)
(* overwritten by a copy of a tracked store or the trace is reset.         *)
(***************************************************************************)
EXTENDS PagedImpl, Json, IOUtils

VARIABLES l, rt, trk, good    \* good[o]: am[o] is the slot's real content (no collapsing store contributed to it)

Trace == ndJsonDeserialize(IOEnv.VERIF_TRACE)
TSlots == 1..4

TraceInit ==
  /\ pg = [o \in TSlots |-> NewPaged]
  /\ am = [o \in TSlots |-> EmptyMap]
  /\ rt = [o \in TSlots |-> "x"]
  /\ trk = [o \in TSlots |-> FALSE]
  /\ good = [o \in TSlots |-> FALSE]
  /\ l = 1

Recv(e) == IF e.op \in {"Merge", "EncDec", "Proto", "CopyTo"} THEN e.t ELSE e.s

AbsApply(A, e) ==
  CASE e.op \in {"Add", "AddWithCount", "AddBin", "AddRepeat"} -> [A EXCEPT ![e.s] = Put(A[e.s], e.i, e.w)]
    [] e.op \in {"Merge", "EncDec", "Proto"} -> [A EXCEPT ![e.t] = MergeM(A[e.t], A[e.s])]
    [] e.op = "CopyTo" -> [A EXCEPT ![e.t] = A[e.s]]
    [] e.op = "Clear"  -> [A EXCEPT ![e.s] = EmptyMap]
    [] e.op = "Reweight" -> [A EXCEPT ![e.s] = ScaleM(A[e.s], e.num, e.den)]
    [] e.op = "Read"   -> A

\* the driver projects the receiver (and the argument) after every call: ForEach / KeyAtRank sort the buffer in place
Observe(P, S) == [o \in TSlots |-> IF o \in S THEN SortBuffer(P[o]) ELSE P[o]]

\* kinds whose ForEach visits bins in ascending index order (fallback MergeWith = AddWithCount per bin in that order)
Ordered(k) == k = "dense"
Collapsing(k) == k \in {"low", "high"}

\* can the receiver of e still be followed exactly?
Followable(e) ==
  CASE e.op = "AddRepeat" -> TRUE
    [] e.op = "Merge"  -> (rt[e.s] = "paged" /\ trk[e.s]) \/ (Ordered(rt[e.s]) /\ good[e.s])
    [] e.op = "EncDec" -> rt[e.s] = "paged" /\ trk[e.s]
    [] e.op = "Proto"  -> FALSE
    [] OTHER -> TRUE

RepeatAdd(p, i, n) ==
  LET F[k \in 0..n] == IF k = 0 THEN p ELSE ImplAdd1(F[k - 1], i, Unit, GO) IN F[n]

ImplApply(P, e) ==
  CASE e.op \in {"Add", "AddWithCount", "AddBin"} -> [P EXCEPT ![e.s] = ImplAddW(P[e.s], e.i, e.w, Unit, GO)]
    [] e.op = "AddRepeat" -> [P EXCEPT ![e.s] = RepeatAdd(P[e.s], e.i, e.num)]
    [] e.op = "Merge" /\ rt[e.t] = "paged" /\ trk[e.t] /\ Followable(e) ->
         IF rt[e.s] = "paged" THEN [P EXCEPT ![e.t] = ImplMergeSame(P[e.t], P[e.s], Unit, GO)]
         ELSE [P EXCEPT ![e.t] = ImplMergeBins(P[e.t], am[e.s], Unit, GO)]
    [] e.op = "EncDec" /\ rt[e.t] = "paged" /\ trk[e.t] /\ Followable(e) ->
         LET src == Compact(P[e.s]) IN [P EXCEPT ![e.s] = src, ![e.t] = ImplDecodeSame(P[e.t], src, GO)]
    [] e.op = "CopyTo" -> [P EXCEPT ![e.t] = ImplCopy(P[e.s])]
    [] e.op = "Clear"  -> [P EXCEPT ![e.s] = ImplClear(P[e.s])]
    [] e.op = "Reweight" -> [P EXCEPT ![e.s] = ImplReweight(P[e.s], e.num, e.den, Unit)]
    [] e.op = "Read"   -> [P EXCEPT ![e.s] = Compact(P[e.s])]          \* the driver's Read encodes the store: Encode compacts
    [] e.op = "EncDec" -> [P EXCEPT ![e.s] = Compact(P[e.s])]          \* ... and so does encoding the SOURCE of a decode
    [] OTHER -> P

TraceNext ==
  /\ l <= Len(Trace)
  /\ LET e == Trace[l] IN
       IF e.op = "reset"
       THEN /\ pg' = [o \in TSlots |-> NewPaged]
            /\ am' = [o \in TSlots |-> EmptyMap]
            /\ rt' = [o \in TSlots |-> e.real[o]]
            /\ trk' = [o \in TSlots |-> e.real[o] = "paged"]
            /\ good' = [o \in TSlots |-> ~Collapsing(e.real[o])]
       ELSE /\ am' = AbsApply(am, e)
            /\ pg' = Observe(ImplApply(pg, e), {Recv(e)} \cup (IF e.t # 0 THEN {e.s} ELSE {}))
            /\ rt' = IF e.op = "CopyTo" THEN [rt EXCEPT ![e.t] = rt[e.s]] ELSE rt
            /\ good' = CASE e.op = "CopyTo" -> [good EXCEPT ![e.t] = good[e.s]]
                         [] e.op \in {"Merge", "EncDec", "Proto"} -> [good EXCEPT ![e.t] = good[e.t] /\ good[e.s]]
                         [] e.op = "Clear" -> [good EXCEPT ![e.s] = ~Collapsing(rt[e.s])]
                         [] OTHER -> good
            /\ trk' = CASE e.op = "CopyTo" -> [trk EXCEPT ![e.t] = trk[e.s]]
                        \* (Clear keeps capacity, trigger and the page slice: an untracked store stays untracked)
                        [] e.op \in {"Merge", "EncDec", "Proto", "AddRepeat"} ->
                             [trk EXCEPT ![Recv(e)] = trk[Recv(e)] /\ Followable(e)]
                        [] OTHER -> trk
  /\ l' = l + 1

AllocatedPages(p) == Cardinality({k \in 1..Len(p.pages) : p.pages[k] # <<>>})

LayoutMatches ==
  l > 1 =>
    LET e == Trace[l - 1] IN
      (e.op # "reset" /\ trk[Recv(e)]) =>
        LET p == pg[Recv(e)] IN
          /\ e.lay.blen = Len(p.buf)
          /\ e.lay.bcap = p.cap
          /\ e.lay.trig = p.trig
          /\ e.lay.plen = Len(p.pages)
          /\ e.lay.palloc = AllocatedPages(p)
          /\ e.lay.punused = (p.minPage = UNUSED)
          /\ (p.minPage # UNUSED) => e.lay.pmin = p.minPage
          /\ AbsBins(p, Unit) = am[Recv(e)]
=============================================================================
