-------------------------------- MODULE Store --------------------------------
(***************************************************************************)
(* Bin stores of sketches-go as index->weight maps (properties C04, C05,   *)
(* and the store-level part of C14, C15, C16).                             *)
(*                                                                         *)
(* One action per public call of store.Store.  The three non-collapsing    *)
(* implementations (DenseStore, SparseStore, BufferedPaginatedStore) all   *)
(* have model kind "exact": which real type a slot is instantiated with is *)
(* a replay-time configuration.  The two collapsing stores are specified   *)
(* OPERATIONALLY, as the code does it (sticky isCollapsed flag, window of  *)
(* n indexes, out-of-window adds go to the edge bin, same-kind MergeWith   *)
(* fast path); the ghost variable `ledger` keeps the un-collapsed content  *)
(* ever offered to the slot and TLC checks that the operational design     *)
(* equals the declarative fold of C05 for every history (S_Fold).          *)
(*                                                                         *)
(* Every action is defined through the pure function ApplyEvent so that    *)
(* model checking (MC_Store), behaviour generation (Gen_Store) and trace   *)
(* validation (Trace_Store) share one source of truth.                     *)
(***************************************************************************)
EXTENDS StoreOps, TLC

CONSTANTS
  Slots,       \* set of store slots, e.g. 1..2
  Keys,        \* model bin indexes offered to Add*, e.g. 0..4
  Q,           \* quanta per unit of weight (Add adds Q quanta)
  Weights,     \* weights (quanta) offered to AddWithCount/AddBin, may contain 0
  Repeats,     \* n offered to AddRepeat (n unit adds of the same index)
  Factors,     \* reweight factors as <<num, den>>
  Ops,         \* enabled operation names
  InitStores   \* [Slots -> StoreRec]: kind and bin limit of each slot at start

VARIABLES st, ledger, last
vars == <<st, ledger, last>>

-----------------------------------------------------------------------------
(* Events.  Uniform records so that sets of events are homogeneous. *)

Ev(op, s, t, i, w, num, den) ==
  [op |-> op, s |-> s, t |-> t, i |-> i, w |-> w, num |-> num, den |-> den]

NoEvent == Ev("Init", 0, 0, 0, 0, 0, 0)

ReadKinds == {"Bins", "ForEach", "KeyAtRank", "Totals", "ToProto", "EncodeProto", "Encode", "Copy"}

EventsOf(op) ==
  CASE op = "Add"          -> {Ev(op, s, 0, i, Q, 0, 0) : s \in Slots, i \in Keys}
    [] op = "AddWithCount" -> {Ev(op, s, 0, i, w, 0, 0) : s \in Slots, i \in Keys, w \in Weights}
    [] op = "AddBin"       -> {Ev(op, s, 0, i, w, 0, 0) : s \in Slots, i \in Keys, w \in Weights}
    [] op = "AddRepeat"    -> {Ev(op, s, 0, i, n * Q, n, 0) : s \in Slots, i \in Keys, n \in Repeats}
    [] op = "Merge"        -> {Ev(op, s, t, 0, 0, 0, 0) : s \in Slots, t \in Slots}
    [] op = "CopyTo"       -> {Ev(op, s, t, 0, 0, 0, 0) : s \in Slots, t \in Slots}
    [] op = "Clear"        -> {Ev(op, s, 0, 0, 0, 0, 0) : s \in Slots}
    [] op = "Reweight"     -> {Ev(op, s, 0, 0, 0, f[1], f[2]) : s \in Slots, f \in Factors}
    [] op = "EncDec"       -> {Ev(op, s, t, 0, 0, 0, 0) : s \in Slots, t \in Slots}
    [] op = "Proto"        -> {Ev(op, s, t, 0, 0, 0, 0) : s \in Slots, t \in Slots}
    [] op = "Read"         -> {Ev(op, s, 0, 0, 0, 0, 0) : s \in Slots}

Events == UNION {EventsOf(op) : op \in Ops}

\* s is the slot that changes ("receiver"), t the read-only argument
Enabled(S, L, e) ==
  CASE e.op \in {"Merge", "EncDec", "Proto", "CopyTo"} -> e.s # e.t
    [] e.op = "Reweight" -> Divisible(L[e.s], e.num, e.den) /\ ~IsEmptyMap(S[e.s].bins)
    [] OTHER -> TRUE

\* receiver of Merge/EncDec/Proto is t  (t <- t + s);  CopyTo: t := copy(s)
ApplyEvent(S, e) ==
  CASE e.op \in {"Add", "AddWithCount", "AddBin", "AddRepeat"} ->
         [S EXCEPT ![e.s] = ApplyAdd(S[e.s], e.i, e.w)]
    [] e.op = "Merge"    -> [S EXCEPT ![e.t] = ApplyMerge(S[e.t], S[e.s])]
    [] e.op \in {"EncDec", "Proto"} -> [S EXCEPT ![e.t] = MergeByAdds(S[e.t], S[e.s].bins)]
    [] e.op = "CopyTo"   -> [S EXCEPT ![e.t] = S[e.s]]
    [] e.op = "Clear"    -> [S EXCEPT ![e.s] = Fresh(S[e.s])]
    [] e.op = "Reweight" -> [S EXCEPT ![e.s] = ApplyReweight(S[e.s], e.num, e.den)]
    [] e.op = "Read"     -> S

\* ghost: what was offered to each slot, un-collapsed by the slot itself
ApplyLedger(S, L, e) ==
  CASE e.op \in {"Add", "AddWithCount", "AddBin", "AddRepeat"} ->
         [L EXCEPT ![e.s] = Put(L[e.s], e.i, e.w)]
    [] e.op \in {"Merge", "EncDec", "Proto"} -> [L EXCEPT ![e.t] = MergeM(L[e.t], S[e.s].bins)]
    [] e.op = "CopyTo"   -> [L EXCEPT ![e.t] = L[e.s]]
    [] e.op = "Clear"    -> [L EXCEPT ![e.s] = EmptyMap]
    [] e.op = "Reweight" -> [L EXCEPT ![e.s] = ScaleM(L[e.s], e.num, e.den)]
    [] e.op = "Read"     -> L

\* the slot an event may change (everything else must stay as it was)
Receiver(e) == IF e.op \in {"Merge", "EncDec", "Proto", "CopyTo"} THEN e.t ELSE e.s

-----------------------------------------------------------------------------
Init ==
  /\ st = InitStores
  /\ ledger = [s \in Slots |-> EmptyMap]
  /\ last = NoEvent

Next ==
  \E e \in Events :
    /\ Enabled(st, ledger, e)
    /\ st' = ApplyEvent(st, e)
    /\ ledger' = ApplyLedger(st, ledger, e)
    /\ last' = e

Spec == Init /\ [][Next]_vars

-----------------------------------------------------------------------------
(* Observations of a store = what the public API exposes (C04) *)

Obs(s) ==
  [kind  |-> s.kind,
   n     |-> s.n,
   empty |-> IsEmptyMap(s.bins),
   total |-> Total(s.bins),
   min   |-> IF IsEmptyMap(s.bins) THEN 0 ELSE MinI(s.bins),
   max   |-> IF IsEmptyMap(s.bins) THEN 0 ELSE MaxI(s.bins),
   bins  |-> BinSeq(s.bins),
   kar   |-> KarSeq(s.bins)]

-----------------------------------------------------------------------------
(* Invariants *)

TypeOK ==
  \A s \in Slots :
    /\ st[s].kind \in {"exact", "low", "high"}
    /\ \A i \in DOMAIN st[s].bins : st[s].bins[i] > 0
    /\ st[s].kind = "exact" => ~st[s].collapsed

\* C05: the operational collapsing design equals the declarative fold, for every history
S_Fold == \A s \in Slots : st[s].bins = FoldOf(st[s].kind, st[s].n, ledger[s])

\* C04/C05: no weight is lost or duplicated
S_Conserve == \A s \in Slots : Total(st[s].bins) = Total(ledger[s])

\* C05: bounded number of bins and span
S_Span ==
  \A s \in Slots : st[s].kind # "exact" =>
      /\ Span(st[s].bins) <= st[s].n
      /\ Cardinality(DOMAIN st[s].bins) <= st[s].n

\* the sticky flag means "the window is full" (what normalize() relies on when it returns 0 / len-1)
S_CollapsedMeaning ==
  \A s \in Slots : st[s].collapsed => Span(st[s].bins) = st[s].n

\* a store that never received anything outside an n-window is exact
S_ExactWhenNarrow ==
  \A s \in Slots : Span(ledger[s]) <= st[s].n \/ st[s].kind = "exact" => st[s].bins = ledger[s]

\* rank lookups answer an index that holds weight and are monotone in the rank
S_KeyAtRank ==
  \A s \in Slots : ~IsEmptyMap(st[s].bins) =>
    LET b  == st[s].bins
        ks == KarSeq(b)
        n  == Len(ks)
    IN /\ \A j \in 1..n : ks[j][2] \in DOMAIN b
       /\ \A j \in 1..(n - 1) : ks[j][2] <= ks[j + 1][2]
       /\ ks[1][2] = MinI(b)
       /\ ks[n][2] = MaxI(b)
       /\ \A j \in 1..n : (ks[j][1] >= 0 /\ ks[j][1] < 2 * Total(b)) =>
             LET k == ks[j][2] IN 2 * Cum(b, k) > ks[j][1] /\ 2 * (Cum(b, k) - b[k]) <= ks[j][1]

\* the order in which a merge feeds the argument's bins does not matter
\* (sparse stores iterate in map order, the binary decoder in block order)
S_MergeOrderIrrelevant ==
  \A s, t \in Slots : s # t =>
    LET b == st[s].bins
        D == DOMAIN b
        n == Cardinality(D)
        ords == {p \in [1..n -> D] : \A x, y \in 1..n : x # y => p[x] # p[y]}
    IN \A p \in ords : AddSeq(st[t], b, p).bins = MergeByAdds(st[t], b).bins

\* the fast same-kind merge equals the generic one
S_FastMergeIsGeneric ==
  \A s, t \in Slots : (s # t /\ st[s].kind = st[t].kind) =>
      ApplyMerge(st[t], st[s]).bins = MergeByAdds(st[t], st[s].bins).bins

(* Action properties: each names the event that was taken through `last'` *)

\* C02/C14: only the receiver of an event may change
S_OnlyReceiverChanges ==
  [][\A s \in Slots : s # Receiver(last') => st'[s] = st[s]]_vars

\* C14: reads change nothing
S_ReadOnly == [][last'.op = "Read" => st' = st]_vars

\* C15: a cleared store is a new store
S_ClearIsInit ==
  [][last'.op = "Clear" => st'[last'.s] = NewStore(st[last'.s].kind, st[last'.s].n)]_vars

\* C16: reweighting scales every bin, nothing else
S_Reweight ==
  [][last'.op = "Reweight" =>
        /\ st'[last'.s].bins = ScaleM(st[last'.s].bins, last'.num, last'.den)
        /\ DOMAIN st'[last'.s].bins = DOMAIN st[last'.s].bins]_vars

\* C14: a copy equals its original and is a separate slot
S_Copy == [][last'.op = "CopyTo" => st'[last'.t] = st[last'.s] /\ st'[last'.s] = st[last'.s]]_vars

\* adding weight 0 is a no-op
S_ZeroWeight ==
  [][(last'.op \in {"AddWithCount", "AddBin"} /\ last'.w = 0) => st' = st]_vars

=============================================================================
