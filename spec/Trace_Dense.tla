----------------------------- MODULE Trace_Dense -----------------------------
(***************************************************************************)
(* Trace validation of the array-level model DenseImpl.tla with the REAL   *)
(* constant (overhead 64): the same recorded executions as Trace_Store,    *)
(* each event carrying the layout of the receiver read through the build-  *)
(* tag-guarded hook store.VerifLayout (allocated length, offset, minIndex, *)
(* maxIndex, isCollapsed).  Objects whose real type is sparse or paginated *)
(* are tracked abstractly only (they are merge arguments of dense ones).   *)
(***************************************************************************)
EXTENDS DenseImpl, Json, IOUtils

VARIABLES l, rt, dense   \* rt[o]: real type of object o; dense[o]: its array layout is being tracked

Trace == ndJsonDeserialize(IOEnv.VERIF_TRACE)
TSlots == 1..4

TraceInit ==
  /\ im = [o \in TSlots |-> NewDense("exact", 0)]
  /\ ab = [o \in TSlots |-> NewStore("exact", 0)]
  /\ dense = [o \in TSlots |-> FALSE]
  /\ rt = [o \in TSlots |-> "sparse"]
  /\ l = 1

IsDenseReal(r) == r \in {"dense", "-"}     \* "-" marks collapsing objects in the recorded reset line

\* abstract effect (as Store!ApplyEvent, restated for the product state)
AbsApply(A, e) ==
  CASE e.op \in {"Add", "AddWithCount", "AddBin", "AddRepeat"} -> [A EXCEPT ![e.s] = ApplyAdd(A[e.s], e.i, e.w)]
    [] e.op = "Merge"  -> [A EXCEPT ![e.t] = ApplyMerge(A[e.t], A[e.s])]
    [] e.op \in {"EncDec", "Proto"} -> [A EXCEPT ![e.t] = MergeByAdds(A[e.t], A[e.s].bins)]
    [] e.op = "CopyTo" -> [A EXCEPT ![e.t] = A[e.s]]
    [] e.op = "Clear"  -> [A EXCEPT ![e.s] = Fresh(A[e.s])]
    [] e.op = "Reweight" -> [A EXCEPT ![e.s] = ApplyReweight(A[e.s], e.num, e.den)]
    [] e.op = "Read"   -> A

(***************************************************************************)
(* The layout of a dense receiver depends on the ORDER in which a merge    *)
(* feeds it.  That order is unspecified when the argument is a sparse      *)
(* store (map iteration), when a protobuf message carries a map, and when  *)
(* a paginated store is encoded (buffered indexes first, then pages); the  *)
(* receiver's layout is then not tracked until it is cleared.              *)
(***************************************************************************)
OrderedSource(op, r) ==
  CASE op = "Merge"  -> r \in {"dense", "-", "paged"}     \* same-kind dense merges use the fast path (order-free); ForEach of dense/paged is ascending
    [] op = "EncDec" -> r \in {"dense", "-"}
    [] op = "Proto"  -> r \in {"dense", "-"}
    [] OTHER -> TRUE

\* the same-kind fast path only reads the argument's content, minIndex and maxIndex: any layout holding it will do
Synth(a) ==
  IF IsEmptyMap(a.bins) THEN NewDense(a.kind, a.n)
  ELSE LET lo == MinI(a.bins)
           hi == MaxI(a.bins)
       IN [NewDense(a.kind, a.n) EXCEPT !.arr = [k \in 1..(hi - lo + 1) |-> Get(a.bins, lo + k - 1)],
                                        !.off = lo, !.mn = lo, !.mx = hi, !.cnt = Total(a.bins)]

ImplApply(I, A, D, e) ==
  CASE e.op \in {"Add", "AddWithCount", "AddBin"} -> [I EXCEPT ![e.s] = ImplAdd(I[e.s], e.i, e.w)]
    [] e.op = "AddRepeat" -> [I EXCEPT ![e.s] = ImplAdd(I[e.s], e.i, e.w)]
    [] e.op = "Merge"  -> [I EXCEPT ![e.t] = IF IsDenseReal(rt[e.s]) /\ A[e.s].kind = I[e.t].kind
                                              THEN ImplMergeSame(I[e.t], Synth(A[e.s]))
                                              ELSE ImplMergeAdds(I[e.t], A[e.s].bins)]
    [] e.op \in {"EncDec", "Proto"} -> [I EXCEPT ![e.t] = ImplMergeAdds(I[e.t], A[e.s].bins)]
    [] e.op = "CopyTo" -> [I EXCEPT ![e.t] = I[e.s]]
    [] e.op = "Clear"  -> [I EXCEPT ![e.s] = ImplClear(I[e.s])]
    [] e.op = "Reweight" -> [I EXCEPT ![e.s] = ImplReweight(I[e.s], e.num, e.den)]
    [] e.op = "Read"   -> I

Recv(e) == IF e.op \in {"Merge", "EncDec", "Proto", "CopyTo"} THEN e.t ELSE e.s

TraceNext ==
  /\ l <= Len(Trace)
  /\ LET e == Trace[l] IN
       IF e.op = "reset"
       THEN /\ im' = [o \in TSlots |-> NewDense(e.kinds[o].kind, e.kinds[o].n)]
            /\ ab' = [o \in TSlots |-> NewStore(e.kinds[o].kind, e.kinds[o].n)]
            /\ dense' = [o \in TSlots |-> IsDenseReal(e.real[o])]
            /\ rt' = [o \in TSlots |-> e.real[o]]
       ELSE /\ ab' = AbsApply(ab, e)
            /\ im' = ImplApply(im, ab, dense, e)
            /\ rt' = IF e.op = "CopyTo" THEN [rt EXCEPT ![e.t] = rt[e.s]] ELSE rt
            /\ dense' = CASE e.op = "CopyTo" -> [dense EXCEPT ![e.t] = dense[e.s]]
                          [] e.op = "Clear"  -> [dense EXCEPT ![e.s] = IsDenseReal(rt[e.s])]
                          [] e.op \in {"Merge", "EncDec", "Proto"} ->
                               [dense EXCEPT ![e.t] = dense[e.t] /\ (OrderedSource(e.op, rt[e.s]) \/ Cardinality(DOMAIN ab[e.s].bins) <= 1)]
                          [] OTHER -> dense
  /\ l' = l + 1

\* the recorded layout of the receiver equals the array-level model's
LayoutMatches ==
  l > 1 =>
    LET e == Trace[l - 1] IN
      (e.op # "reset" /\ dense[Recv(e)]) =>
        LET d == im[Recv(e)] IN
          /\ ~d.panicked
          /\ e.lay.len = LenA(d)
          /\ e.lay.coll = d.coll
          /\ d.cnt > 0 => (e.lay.off = d.off /\ e.lay.mn = d.mn /\ e.lay.mx = d.mx)
          /\ AbsBins(d) = ab[Recv(e)].bins
=============================================================================
