------------------------------ MODULE IndexMap ------------------------------
(***************************************************************************)
(* Pure operators over "index maps": finite functions from integer bin     *)
(* indexes to strictly positive integer weights.  A weight is a number of  *)
(* QUANTA; one unit of weight (the weight of Store.Add) is Q quanta, so    *)
(* fractional weights of the implementation (1/Q granularity) are integers *)
(* here and all arithmetic is exact.                                       *)
(*                                                                         *)
(* This is the mathematical object properties C04/C05 talk about: "the     *)
(* mathematical map from index to accumulated weight".                     *)
(***************************************************************************)
EXTENDS Integers, FiniteSets, Sequences, FiniteSetsExt, Functions, SequencesExt

SortedSeq(S) == SetToSortSeq(S, LAMBDA a, b : a < b)

EmptyMap == [i \in {} |-> 0]

IsEmptyMap(b) == DOMAIN b = {}

Get(b, i) == IF i \in DOMAIN b THEN b[i] ELSE 0

\* add weight w >= 0 at index i (weight 0 adds nothing, as in every store)
Put(b, i, w) ==
  IF w = 0 THEN b
  ELSE [j \in (DOMAIN b) \cup {i} |-> Get(b, j) + (IF j = i THEN w ELSE 0)]

MergeM(a, b) == [j \in (DOMAIN a) \cup (DOMAIN b) |-> Get(a, j) + Get(b, j)]

SumOn(b, S) == FoldFunctionOnSet(+, 0, b, S)

Total(b) == SumOn(b, DOMAIN b)

\* every weight times num/den; only used when Divisible
ScaleM(b, num, den) == [j \in DOMAIN b |-> (b[j] * num) \div den]
Divisible(b, num, den) == \A j \in DOMAIN b : (b[j] * num) % den = 0

MinI(b) == Min(DOMAIN b)
MaxI(b) == Max(DOMAIN b)

\* cumulative weight of all indexes <= i
Cum(b, i) == SumOn(b, {j \in DOMAIN b : j <= i})

(***************************************************************************)
(* Rank lookup as documented by Store.KeyAtRank: the first index whose     *)
(* cumulative weight EXCEEDS the rank, the rank being clamped at 0 and the *)
(* answer at the largest index.  Ranks are given in HALF quanta (r2) so    *)
(* that ranks strictly between two representable weights can be probed.    *)
(***************************************************************************)
\* running totals over the sorted indexes: CumSeq(b)[k] = weight of the k lowest bins
CumSeq(b) ==
  LET idx == SortedSeq(DOMAIN b)
      c[k \in 0..Len(idx)] == IF k = 0 THEN 0 ELSE c[k - 1] + b[idx[k]]
  IN [k \in 1..Len(idx) |-> c[k]]

KeyAtRankIn(idx, cs, r2) ==
  LET r == IF r2 < 0 THEN 0 ELSE r2
      n == Len(idx)
  IN IF 2 * cs[n] > r
     THEN idx[CHOOSE k \in 1..n : 2 * cs[k] > r /\ \A j \in 1..(k - 1) : 2 * cs[j] <= r]
     ELSE idx[n]

KeyAtRank2(b, r2) == KeyAtRankIn(SortedSeq(DOMAIN b), CumSeq(b), r2)

(***************************************************************************)
(* The declarative meaning of a collapsing store (C05): the exact content  *)
(* with every index beyond the collapsing edge folded into the edge bin.   *)
(***************************************************************************)
FoldLow(b, N) ==
  IF IsEmptyMap(b) THEN b
  ELSE LET e    == MaxI(b) - N + 1
           low  == {j \in DOMAIN b : j < e}
           keep == {j \in DOMAIN b : j >= e}
       IN IF low = {} THEN b
          ELSE [j \in keep \cup {e} |-> Get(b, j) + (IF j = e THEN SumOn(b, low) ELSE 0)]

FoldHigh(b, N) ==
  IF IsEmptyMap(b) THEN b
  ELSE LET e    == MinI(b) + N - 1
           high == {j \in DOMAIN b : j > e}
           keep == {j \in DOMAIN b : j <= e}
       IN IF high = {} THEN b
          ELSE [j \in keep \cup {e} |-> Get(b, j) + (IF j = e THEN SumOn(b, high) ELSE 0)]

\* fold everything strictly below / above an explicit edge into the edge
FoldBelow(b, e) ==
  LET low == {j \in DOMAIN b : j < e} IN
  IF low = {} THEN b
  ELSE [j \in ({j \in DOMAIN b : j >= e}) \cup {e} |->
          Get(b, j) + (IF j = e THEN SumOn(b, low) ELSE 0)]

FoldAbove(b, e) ==
  LET high == {j \in DOMAIN b : j > e} IN
  IF high = {} THEN b
  ELSE [j \in ({j \in DOMAIN b : j <= e}) \cup {e} |->
          Get(b, j) + (IF j = e THEN SumOn(b, high) ELSE 0)]

Span(b) == IF IsEmptyMap(b) THEN 0 ELSE MaxI(b) - MinI(b) + 1

\* sorted sequence of <<index, weight>> pairs (the "bin stream" of a store)
BinSeq(b) ==
  LET idx == SortedSeq(DOMAIN b)
  IN [k \in 1..Len(idx) |-> <<idx[k], b[idx[k]]>>]

\* the cumulative-weight boundaries of b: 0 and Cum at every index
Boundaries(b) == LET cs == CumSeq(b) IN {0} \cup {cs[k] : k \in DOMAIN cs}

(***************************************************************************)
(* Probe ranks (half quanta) at which rank lookups are compared with the   *)
(* implementation: just below, at and just above every cumulative boundary *)
(* plus a negative rank and ranks at/above the total.                      *)
(***************************************************************************)
ProbeRanks2(b) ==
  {-2} \cup UNION {{2 * c - 1, 2 * c, 2 * c + 1} : c \in Boundaries(b)} \cup {2 * Total(b) + 2}

KarSeq(b) ==
  IF IsEmptyMap(b) THEN <<>>
  ELSE LET rs  == SortedSeq(ProbeRanks2(b))
           idx == SortedSeq(DOMAIN b)
           cs  == CumSeq(b)
       IN [k \in 1..Len(rs) |-> <<rs[k], KeyAtRankIn(idx, cs, rs[k])>>]

=============================================================================
