----------------------------- MODULE Gen_Sketch -----------------------------
(***************************************************************************)
(* Behaviour generation for Sketch.tla (conformance direction A): the same *)
(* actions plus a history variable; each printed history carries, per      *)
(* step, the event, the error class the call must return and the           *)
(* specification's observation (Obs) of EVERY slot after the step.         *)
(***************************************************************************)
EXTENDS Sketch, Json

CONSTANTS Depth,
          Lazy    \* TRUE (simulation): predictions are computed only for the printed history and
                  \* the last event is a fixed Read, so that one history is printed per simulated trace

VARIABLE hist

GenInit == Init /\ hist = <<>>

PredOf(S) == [i \in Slots |-> Obs(S[i])]

GenNext ==
  /\ Len(hist) < Depth
  /\ IF Lazy /\ Len(hist) = Depth - 1
     THEN /\ last' = Ev("Read", 1, 0, 0, 0, 0, 0)
          /\ err' = ""
          /\ UNCHANGED sk
     ELSE Next
  /\ hist' = Append(hist, [ev |-> last', err |-> err',
                            errs |-> IF last'.op \in {"Add", "AddW", "AddN"} THEN SortedSeqStr(AddErrorSet(last'.v, last'.w)) ELSE <<>>,
                            pred |-> IF Lazy THEN <<>> ELSE PredOf(sk')])

GenSpec == GenInit /\ [][GenNext]_<<vars, hist>>

WithPreds(h) ==
  LET S[k \in 0..Len(h)] == IF k = 0 THEN InitSketches ELSE ApplyEvent(S[k - 1], h[k].ev)
  IN [k \in 1..Len(h) |-> [ev |-> h[k].ev, err |-> h[k].err, errs |-> h[k].errs, pred |-> PredOf(S[k])]]

Emit == (Len(hist) = Depth) =>
          PrintT(<<"BEH", ToJson(IF Lazy THEN WithPreds(hist) ELSE hist)>>)
=============================================================================
