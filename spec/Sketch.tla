------------------------------- MODULE Sketch -------------------------------
(***************************************************************************)
(* DDSketch and DDSketchWithExactSummaryStatistics (ddsketch/ddsketch.go)  *)
(* as a state machine: properties C01, C02, C05 (sketch level), C06, C09   *)
(* (structural part), C10, C11, C12, C13, C14, C15, C16.                   *)
(*                                                                         *)
(* VALUES ARE TOKENS.  TLC has no floating point, and the properties are   *)
(* about which bin / side / rank / error a value leads to, so a value is   *)
(* an integer token `v` ("value rank", ordered like the float it stands    *)
(* for; the Go harness concretises it to an actual float64 of the real     *)
(* mapping under test):                                                    *)
(*      +-(10 + 2k + p)  the lowest (p=0) / highest (p=1) float64 of bin   *)
(*                       k on the positive / negative side                 *)
(*      0, -1            +0.0, -0.0                                        *)
(*      +-2              a magnitude below MinIndexableValue               *)
(*      +-3              +-MinIndexableValue itself (still the zero bin)   *)
(*      +-1000           +-MaxIndexableValue (accepted; bin TopKey)        *)
(*      5000             NaN            +-5001  +-Inf                      *)
(*      +-5002           just beyond +-MaxIndexableValue                   *)
(*      +-5003           +-MaxFloat64                                      *)
(* Weights are integer QUANTA (Q quanta = weight 1), see IndexMap.tla.     *)
(*                                                                         *)
(* The sketch state has two layers:                                        *)
(*  - operational, mirroring the code: two stores (StoreOps), the zero     *)
(*    bucket, and for the exact variant count/min/max;                     *)
(*  - declarative ghost state: `bag`, the weighted multiset of value       *)
(*    tokens ever absorbed, and the bin-level ledgers lpos/lneg.           *)
(* Properties are stated against the ghost state; the Go harness replays   *)
(* TLC's behaviours on real sketches and checks every answer of the real   *)
(* code against what the property allows in the specification state.       *)
(***************************************************************************)
EXTENDS StoreOps, TLC

CONSTANTS
  Slots,        \* sketch slots, 1..n
  Q,            \* quanta per unit of weight
  QDen,         \* quantiles are a/QDen, a in 0..QDen
  Tokens,       \* value tokens offered to Add / AddW
  Weights,      \* weights (quanta) offered to AddW; 0 and -1 (a negative weight) allowed
  Factors,      \* reweight factors <<num, den>>; num <= 0 is refused
  Ops,          \* enabled operation names
  InitSketches, \* [Slots -> sketch record] (variant, mapping token, store kinds)
  MapToks,      \* mapping tokens offered to ChangeMap
  ScaleToks     \* scale-factor tokens offered to ChangeMap (0 stands for the factor 1)

VARIABLES sk, last, err
vars == <<sk, last, err>>

-----------------------------------------------------------------------------
(* Tokens *)

TopKey == 495
IsRefused(v) == v >= 5000 \/ v <= -5001
IsZeroClass(v) == v > -10 /\ v < 10
Abs(v) == IF v < 0 THEN -v ELSE v
KeyOf(v) == (Abs(v) - 10) \div 2
SideOf(v) == IF IsZeroClass(v) THEN 0 ELSE IF v > 0 THEN 1 ELSE -1
\* the value a token counts as for order statistics: everything in the zero bucket counts as 0 (C01)
CV(v) == IF IsZeroClass(v) THEN 0 ELSE v
\* bin-level value rank of (side, key)
BRank(side, key) == side * (key + 1)

PInf == 9999    \* +Inf / -Inf of the exact statistics
NInf == -9999

-----------------------------------------------------------------------------
(* Sketch records *)

NewSketch(variant, m, posKind, posN, negKind, negN) ==
  [variant |-> variant, m |-> m,
   pos |-> NewStore(posKind, posN), neg |-> NewStore(negKind, negN), zero |-> 0,
   bag |-> EmptyMap, lpos |-> EmptyMap, lneg |-> EmptyMap,
   xcnt |-> 0, xmin |-> PInf, xmax |-> NInf,
   opq |-> FALSE]   \* opaque: produced by a mapping change, bin-level content not predicted (see ChangeMap)

FreshSketch(s) == NewSketch(s.variant, s.m, s.pos.kind, s.pos.n, s.neg.kind, s.neg.n)

Count(s) == s.zero + Total(s.pos.bins) + Total(s.neg.bins)

-----------------------------------------------------------------------------
(* AddWithCount, in the order the code performs its checks *)

AddError(v, w) ==
  IF w < 0 THEN "NegCount"
  ELSE IF v = 5000 THEN "NaN"
  ELSE IF v >= 5001 THEN "TooHigh"
  ELSE IF v <= -5001 THEN "TooLow"
  ELSE ""

\* both checks fail: the order in which they are made is not part of the contract
AddErrorSet(v, w) ==
  (IF w < 0 THEN {"NegCount"} ELSE {}) \cup
  (IF v = 5000 THEN {"NaN"} ELSE IF v >= 5001 THEN {"TooHigh"} ELSE IF v <= -5001 THEN {"TooLow"} ELSE {})

ApplyAddW(s, v, w) ==
  IF AddError(v, w) # "" THEN s
  ELSE LET s1 == IF v >= 10 THEN [s EXCEPT !.pos = ApplyAdd(s.pos, KeyOf(v), w), !.lpos = Put(s.lpos, KeyOf(v), w)]
                 ELSE IF v <= -10 THEN [s EXCEPT !.neg = ApplyAdd(s.neg, KeyOf(v), w), !.lneg = Put(s.lneg, KeyOf(v), w)]
                 ELSE [s EXCEPT !.zero = s.zero + w]
           s2 == [s1 EXCEPT !.bag = Put(s.bag, v, w)]
       IN IF s.variant = "exact" /\ w > 0
          THEN [s2 EXCEPT !.xcnt = s.xcnt + w,
                          !.xmin = IF v < s.xmin THEN v ELSE s.xmin,
                          !.xmax = IF v > s.xmax THEN v ELSE s.xmax]
          ELSE s2

-----------------------------------------------------------------------------
(* GetValueAtQuantile(a/QDen), as the code computes it.  The answer is     *)
(* <<side, key>>: the representative of bin `key` of that side, or <<0,0>> *)
(* for 0.  (rank clamped at 0: finding F2 repaired.)                       *)

\* first index whose cumulative weight times den exceeds num (clamped like Store.KeyAtRank)
KeyAtRankF(b, num, den) ==
  LET r   == IF num < 0 THEN 0 ELSE num
      idx == SortedSeq(DOMAIN b)
      cs  == CumSeq(b)
      n   == Len(idx)
  IN IF cs[n] * den > r
     THEN idx[CHOOSE k \in 1..n : cs[k] * den > r /\ \A j \in 1..(k - 1) : cs[j] * den <= r]
     ELSE idx[n]

QuantOper(s, a) ==
  LET W    == Count(s)
      rn0  == a * (W - Q)
      rn   == IF rn0 < 0 THEN 0 ELSE rn0
      negC == Total(s.neg.bins)
  IN IF rn < negC * QDen THEN <<-1, KeyAtRankF(s.neg.bins, (negC - Q) * QDen - rn, QDen)>>
     ELSE IF rn < (s.zero + negC) * QDen THEN <<0, 0>>
     ELSE <<1, KeyAtRankF(s.pos.bins, rn - (s.zero + negC) * QDen, QDen)>>

\* GetMinValue / GetMaxValue of the plain sketch: side selection by emptiness
MinOper(s) ==
  IF ~IsEmptyMap(s.neg.bins) THEN <<-1, MaxI(s.neg.bins)>>
  ELSE IF s.zero > 0 THEN <<0, 0>>
  ELSE <<1, MinI(s.pos.bins)>>

MaxOper(s) ==
  IF ~IsEmptyMap(s.pos.bins) THEN <<1, MaxI(s.pos.bins)>>
  ELSE IF s.zero > 0 THEN <<0, 0>>
  ELSE <<-1, MinI(s.neg.bins)>>

-----------------------------------------------------------------------------
(* Declarative layer *)

\* bag with every zero-bucket token counted as the value 0
CBag(bag) ==
  LET Z  == {v \in DOMAIN bag : IsZeroClass(v)}
      NZ == (DOMAIN bag) \ Z
  IN [x \in NZ \cup (IF Z # {} THEN {0} ELSE {}) |-> IF x = 0 THEN SumOn(bag, Z) ELSE bag[x]]

\* exact (un-collapsed) content of a side implied by the absorbed tokens
SideContent(bag, side) ==
  LET T == {v \in DOMAIN bag : SideOf(v) = side}
      K == {KeyOf(v) : v \in T}
  IN [k \in K |-> SumOn(bag, {v \in T : KeyOf(v) = k})]

ZeroContent(bag) == SumOn(bag, {v \in DOMAIN bag : IsZeroClass(v)})

\* the content actually held, as a map over bin-level value ranks
ContentMap(s) ==
  LET D == {BRank(-1, k) : k \in DOMAIN s.neg.bins} \cup {BRank(1, k) : k \in DOMAIN s.pos.bins}
           \cup (IF s.zero > 0 THEN {0} ELSE {})
  IN [x \in D |-> IF x = 0 THEN s.zero ELSE IF x > 0 THEN s.pos.bins[x - 1] ELSE s.neg.bins[-x - 1]]

\* the stores hold exactly what the absorbed tokens imply (no collapsing happened)
ContentExact(s) ==
  /\ s.pos.bins = SideContent(s.bag, 1)
  /\ s.neg.bins = SideContent(s.bag, -1)

(***************************************************************************)
(* C11: elements of the weighted multiset cm (a map from ordered values to *)
(* weights) whose cumulative-weight interval lies within one unit of       *)
(* weight of q*(W-1), q = a/QDen.                                          *)
(***************************************************************************)
Allowed(cm, a) ==
  LET W  == Total(cm)
      rn == a * (W - Q)
  IN {x \in DOMAIN cm : (Cum(cm, x) - cm[x] - Q) * QDen <= rn /\ rn <= (Cum(cm, x) + Q) * QDen}

(***************************************************************************)
(* C01: with unit weights, the elements holding the order statistic of     *)
(* rank floor(q*(n-1)) or ceil(q*(n-1)).                                   *)
(***************************************************************************)
UnitWeights(cm) == \A x \in DOMAIN cm : cm[x] % Q = 0

AllowedStrict(cm, a) ==
  LET W  == Total(cm)
      rn == a * (W - Q)                      \* rank * QDen * Q  (rank in units = rn / (QDen*Q))
      fl == rn \div (QDen * Q)
      cl == IF rn % (QDen * Q) = 0 THEN fl ELSE fl + 1
      Holds(x, p) == Cum(cm, x) - cm[x] <= p * Q /\ p * Q < Cum(cm, x)
  IN {x \in DOMAIN cm : Holds(x, fl) \/ Holds(x, cl)}

-----------------------------------------------------------------------------
(* The other operations *)

MergeStats(t, s) ==
  IF t.variant = "exact" /\ s.variant = "exact"
  THEN [t EXCEPT !.xcnt = t.xcnt + s.xcnt,
                 !.xmin = IF s.xmin < t.xmin THEN s.xmin ELSE t.xmin,
                 !.xmax = IF s.xmax > t.xmax THEN s.xmax ELSE t.xmax]
  ELSE t

\* t.MergeWith(s): store merges with the same-kind fast paths
ApplyMergeSk(t, s) ==
  MergeStats([t EXCEPT !.pos = ApplyMerge(t.pos, s.pos), !.neg = ApplyMerge(t.neg, s.neg),
                       !.zero = t.zero + s.zero, !.opq = t.opq \/ s.opq,
                       !.bag = MergeM(t.bag, s.bag),
                       !.lpos = MergeM(t.lpos, s.pos.bins), !.lneg = MergeM(t.lneg, s.neg.bins)], s)

\* decoding s's encoding (binary or protobuf) into t: bins are added one by one
ApplyAbsorb(t, s) ==
  MergeStats([t EXCEPT !.pos = MergeByAdds(t.pos, s.pos.bins), !.neg = MergeByAdds(t.neg, s.neg.bins),
                       !.zero = t.zero + s.zero, !.opq = t.opq \/ s.opq,
                       !.bag = MergeM(t.bag, s.bag),
                       !.lpos = MergeM(t.lpos, s.pos.bins), !.lneg = MergeM(t.lneg, s.neg.bins)], s)

ScaleSk(s, num, den) ==
  LET s1 == [s EXCEPT !.pos = ApplyReweight(s.pos, num, den), !.neg = ApplyReweight(s.neg, num, den),
                      !.zero = (s.zero * num) \div den,
                      !.bag = ScaleM(s.bag, num, den),
                      !.lpos = ScaleM(s.lpos, num, den), !.lneg = ScaleM(s.lneg, num, den)]
  IN IF s.variant = "exact" THEN [s1 EXCEPT !.xcnt = (s.xcnt * num) \div den] ELSE s1

CanScale(s, num, den) ==
  /\ Divisible(s.bag, num, den) /\ Divisible(s.lpos, num, den) /\ Divisible(s.lneg, num, den)
  /\ Divisible(s.pos.bins, num, den) /\ Divisible(s.neg.bins, num, den)

-----------------------------------------------------------------------------
(* Events (uniform records) *)

Ev(op, s, t, v, w, num, den) ==
  [op |-> op, s |-> s, t |-> t, v |-> v, w |-> w, num |-> num, den |-> den]

NoEvent == Ev("Init", 0, 0, 0, 0, 0, 0)

EventsOf(op) ==
  CASE op = "Add"      -> {Ev(op, s, 0, v, Q, 0, 0) : s \in Slots, v \in Tokens}
    [] op = "AddW"     -> {Ev(op, s, 0, v, w, 0, 0) : s \in Slots, v \in Tokens, w \in Weights}
    [] op = "AddN"     -> {Ev(op, s, 0, v, n * Q, n, 0) : s \in Slots, v \in Tokens, n \in {33, 70}}   \* n unit adds in a row
    [] op = "Merge"    -> {Ev(op, s, t, 0, 0, 0, 0) : s \in Slots, t \in Slots}
    [] op = "Copy"     -> {Ev(op, s, t, 0, 0, 0, 0) : s \in Slots, t \in Slots}
    [] op = "Clear"    -> {Ev(op, s, 0, 0, 0, 0, 0) : s \in Slots}
    [] op = "Reweight" -> {Ev(op, s, 0, 0, 0, f[1], f[2]) : s \in Slots, f \in Factors}
    [] op = "EncDec"   -> {Ev(op, s, t, 0, w, 0, 0) : s \in Slots, t \in Slots, w \in {0, 1}}   \* w = 1: omit the mapping
    [] op = "DecodeNew" -> {Ev(op, s, t, 0, w, 0, 0) : s \in Slots, t \in Slots, w \in {0, 1}}
    [] op = "Proto"    -> {Ev(op, s, t, 0, 0, 0, 0) : s \in Slots, t \in Slots}
    \* t := s.ChangeMapping(mapping token v, fresh stores of slot t, scale token w); w = 0 is scale 1
    [] op = "ChangeMap" -> {Ev(op, s, t, m, w, 0, 0) : s \in Slots, t \in Slots, m \in MapToks, w \in ScaleToks}
    \* one buffer holding the encodings of s and of slot v, decoded into t in one call
    [] op = "Concat"   -> {Ev(op, s, t, u, w, 0, 0) : s \in Slots, t \in Slots, u \in Slots, w \in {0, 1}}
    [] op = "Read"     -> {Ev(op, s, 0, 0, 0, 0, 0) : s \in Slots}

Events == UNION {EventsOf(op) : op \in Ops}

\* decoders of the exact variant need the statistics blocks: an exact target only takes exact sources
DecodableInto(t, s) == t.variant = "plain" \/ s.variant = "exact"

Enabled(S, e) ==
  CASE e.op = "Merge"     -> e.s # e.t /\ S[e.s].variant = S[e.t].variant
    [] e.op = "Copy"      -> e.s # e.t
    [] e.op = "EncDec"    -> e.s # e.t /\ S[e.s].m = S[e.t].m /\ DecodableInto(S[e.t], S[e.s])
    [] e.op = "Concat"    -> e.s # e.t /\ e.v # e.t /\ S[e.s].m = S[e.t].m /\ S[e.v].m = S[e.t].m
                               /\ DecodableInto(S[e.t], S[e.s]) /\ DecodableInto(S[e.t], S[e.v])
    [] e.op = "DecodeNew" -> e.s # e.t /\ DecodableInto(InitSketches[e.t], S[e.s])
    [] e.op = "ChangeMap" -> e.s # e.t /\ ~S[e.s].opq
    [] e.op = "Proto"     -> e.s # e.t /\ InitSketches[e.t].variant = "plain"
    [] e.op = "Reweight"  -> e.num <= 0 \/ e.num = e.den \/ CanScale(S[e.s], e.num, e.den)
    [] OTHER -> TRUE

\* the error class an event must return ("" = success)
ErrorOf(S, e) ==
  CASE e.op \in {"Add", "AddW", "AddN"} -> AddError(e.v, e.w)
    [] e.op = "Merge"    -> IF S[e.s].m # S[e.t].m THEN "Mapping" ELSE ""
    [] e.op = "Reweight" -> IF e.num <= 0 THEN "Factor" ELSE ""
    [] OTHER -> ""

Receiver(e) == IF e.op \in {"Merge", "Copy", "EncDec", "DecodeNew", "Proto", "Concat", "ChangeMap"} THEN e.t ELSE e.s

\* a sketch re-created in slot t by a decoder uses slot t's own store provider and variant
Rebuilt(S, t, s, m) ==
  LET fresh == FreshSketch([InitSketches[t] EXCEPT !.m = m])
  IN ApplyAbsorb(fresh, S[s])

(***************************************************************************)
(* ChangeMapping (C17, and the unit-change clause of C10).  With an equal  *)
(* mapping and scale 1 the result is an exact copy of the source.          *)
(* Otherwise the weight of every bin is split over the target mapping's    *)
(* bins in proportion to the overlap - float arithmetic that TLC cannot    *)
(* follow - so the result is modelled as OPAQUE: the specification only    *)
(* fixes its variant (the source's), the requested mapping, the exact      *)
(* count and which source extremes its exact min/max derive from; the      *)
(* numeric clauses are checked by the harness against the source slot      *)
(* (allowed source bins per quantile come from the source's prediction).   *)
(***************************************************************************)
ChangedMapping(S, e) ==
  IF e.w = 0 /\ e.v = S[e.s].m THEN S[e.s]
  ELSE [FreshSketch(InitSketches[e.t]) EXCEPT !.variant = S[e.s].variant, !.m = e.v, !.opq = TRUE,
                                               !.xcnt = S[e.s].xcnt, !.xmin = S[e.s].xmin, !.xmax = S[e.s].xmax]

ApplyEvent(S, e) ==
  IF ErrorOf(S, e) # "" THEN S      \* C13: a refused call changes nothing
  ELSE CASE e.op \in {"Add", "AddW", "AddN"} -> [S EXCEPT ![e.s] = ApplyAddW(S[e.s], e.v, e.w)]
    [] e.op = "Merge"     -> [S EXCEPT ![e.t] = ApplyMergeSk(S[e.t], S[e.s])]
    [] e.op = "Copy"      -> [S EXCEPT ![e.t] = S[e.s]]
    [] e.op = "Clear"     -> [S EXCEPT ![e.s] = FreshSketch(S[e.s])]
    [] e.op = "Reweight"  -> IF e.num = e.den THEN S ELSE [S EXCEPT ![e.s] = ScaleSk(S[e.s], e.num, e.den)]
    [] e.op = "EncDec"    -> [S EXCEPT ![e.t] = ApplyAbsorb(S[e.t], S[e.s])]
    [] e.op = "Concat"    -> [S EXCEPT ![e.t] = ApplyAbsorb(ApplyAbsorb(S[e.t], S[e.s]), S[e.v])]
    [] e.op = "DecodeNew" -> [S EXCEPT ![e.t] = Rebuilt(S, e.t, e.s, S[e.s].m)]
    [] e.op = "Proto"     -> [S EXCEPT ![e.t] = Rebuilt(S, e.t, e.s, S[e.s].m)]
    [] e.op = "ChangeMap" -> [S EXCEPT ![e.t] = ChangedMapping(S, e)]
    [] e.op = "Read"      -> S

-----------------------------------------------------------------------------
Init ==
  /\ sk = InitSketches
  /\ last = NoEvent
  /\ err = ""

Next ==
  \E e \in Events :
    /\ Enabled(sk, e)
    /\ sk' = ApplyEvent(sk, e)
    /\ err' = ErrorOf(sk, e)
    /\ last' = e

Spec == Init /\ [][Next]_vars

-----------------------------------------------------------------------------
(* Observations exported to the conformance harness *)

SetSeq(S) == SortedSeq(S)
SortedSeqStr(S) == SetToSeq(S)   \* any order: a set of acceptable error names

\* bins <<side,key>> as a sorted sequence of bin-level ranks
QObs(s, a) ==
  LET cm  == ContentMap(s)
      tb  == CBag(s.bag)
      ex  == ContentExact(s)
      tokOf(X) == {v \in DOMAIN s.bag : CV(v) \in X}
  IN [a      |-> a,
      oper   |-> QuantOper(s, a),
      bins   |-> SetSeq(Allowed(cm, a)),
      toks   |-> IF ex THEN SetSeq(tokOf(Allowed(tb, a))) ELSE <<>>,
      unit   |-> ex /\ UnitWeights(tb) /\ Total(tb) >= Q,
      strict |-> IF ex /\ UnitWeights(tb) /\ Total(tb) >= Q THEN SetSeq(tokOf(AllowedStrict(tb, a))) ELSE <<>>]

Obs(s) ==
  LET W == Count(s) IN
  [variant |-> s.variant, m |-> s.m, opq |-> s.opq,
   empty |-> W = 0,
   count |-> W,
   zero  |-> s.zero,
   pos   |-> BinSeq(s.pos.bins),
   neg   |-> BinSeq(s.neg.bins),
   bag   |-> BinSeq(s.bag),
   exact |-> ContentExact(s),
   minOper |-> IF W = 0 THEN <<0, 0>> ELSE MinOper(s),
   maxOper |-> IF W = 0 THEN <<0, 0>> ELSE MaxOper(s),
   minTok |-> IF IsEmptyMap(s.bag) THEN 0 ELSE MinI(s.bag),
   maxTok |-> IF IsEmptyMap(s.bag) THEN 0 ELSE MaxI(s.bag),
   xcnt |-> s.xcnt, xmin |-> s.xmin, xmax |-> s.xmax,
   qs |-> IF W = 0 THEN <<>> ELSE [a \in 1..(QDen + 1) |-> QObs(s, a - 1)]]

-----------------------------------------------------------------------------
(* Invariants *)

\* slots whose bin-level content the specification predicts
Live == {i \in Slots : ~sk[i].opq}

NonEmpty(s) == Count(s) > 0

TypeOK ==
  \A i \in Live :
    /\ sk[i].zero >= 0
    /\ \A v \in DOMAIN sk[i].bag : sk[i].bag[v] > 0 /\ ~IsRefused(v)

\* the bin-level content is the fold of what was offered (C05 at sketch level); weight conserved (C12)
K_Content ==
  \A i \in Live :
    /\ sk[i].pos.bins = FoldOf(sk[i].pos.kind, sk[i].pos.n, sk[i].lpos)
    /\ sk[i].neg.bins = FoldOf(sk[i].neg.kind, sk[i].neg.n, sk[i].lneg)
    /\ Count(sk[i]) = Total(sk[i].bag)
    /\ sk[i].zero = ZeroContent(sk[i].bag)

\* with non-collapsing stores the stores hold exactly the absorbed tokens (C02: any merge tree)
K_Merge ==
  \A i \in Live : (sk[i].pos.kind = "exact" /\ sk[i].neg.kind = "exact" /\
                    \A j \in Slots : sk[j].pos.kind = "exact" /\ sk[j].neg.kind = "exact") => ContentExact(sk[i])

BinOfTok(v) == IF IsZeroClass(v) THEN <<0, 0>> ELSE <<SideOf(v), KeyOf(v)>>
BinOfRank(x) == IF x = 0 THEN <<0, 0>> ELSE IF x > 0 THEN <<1, x - 1>> ELSE <<-1, -x - 1>>

\* C11 (and C01 for unit weights): the answer is the bin of an allowed element
K_Rank ==
  \A i \in Live : NonEmpty(sk[i]) =>
    \A a \in 0..QDen :
      LET s  == sk[i]
          o  == QuantOper(s, a)
          cm == ContentMap(s)
          tb == CBag(s.bag)
      IN /\ o \in {BinOfRank(x) : x \in Allowed(cm, a)}
         /\ ContentExact(s) => o \in {BinOfTok(v) : v \in {u \in DOMAIN s.bag : CV(u) \in Allowed(tb, a)}}
         /\ (ContentExact(s) /\ UnitWeights(tb) /\ Total(tb) >= Q) =>
               o \in {BinOfTok(v) : v \in {u \in DOMAIN s.bag : CV(u) \in AllowedStrict(tb, a)}}

\* q=0 / q=1 land in the bins of the true minimum / maximum (C01: unit weights; with
\* fractional weights C11 only promises a rank within one unit of weight), and the
\* reported extremes are the extreme non-empty bins (C12)
K_Ends ==
  \A i \in Live : NonEmpty(sk[i]) =>
    LET cm == ContentMap(sk[i]) IN
      /\ UnitWeights(cm) => /\ QuantOper(sk[i], 0) = BinOfRank(MinI(cm))
                            /\ QuantOper(sk[i], QDen) = BinOfRank(MaxI(cm))
      /\ MinOper(sk[i]) = BinOfRank(MinI(cm))
      /\ MaxOper(sk[i]) = BinOfRank(MaxI(cm))

RankOfBin(o) == BRank(o[1], o[2])

\* C12: non-decreasing in q, inside [min, max]
K_Monotone ==
  \A i \in Live : NonEmpty(sk[i]) =>
    /\ \A a \in 0..(QDen - 1) : RankOfBin(QuantOper(sk[i], a)) <= RankOfBin(QuantOper(sk[i], a + 1))
    /\ \A a \in 0..QDen : /\ RankOfBin(MinOper(sk[i])) <= RankOfBin(QuantOper(sk[i], a))
                          /\ RankOfBin(QuantOper(sk[i], a)) <= RankOfBin(MaxOper(sk[i]))

\* C10: exact statistics are functions of the absorbed multiset
X_Stats ==
  \A i \in Live : sk[i].variant = "exact" =>
    /\ sk[i].xcnt = Total(sk[i].bag)
    /\ (sk[i].xcnt = 0) = (Count(sk[i]) = 0)
    /\ IsEmptyMap(sk[i].bag) => (sk[i].xmin = PInf /\ sk[i].xmax = NInf)
    /\ ~IsEmptyMap(sk[i].bag) => (sk[i].xmin = MinI(sk[i].bag) /\ sk[i].xmax = MaxI(sk[i].bag))

(* Action properties *)

\* C13: a refused call leaves every sketch as it was
K_Refused == [][err' # "" => sk' = sk]_vars

\* C02/C14: only the receiver changes
K_OnlyReceiverChanges == [][\A i \in Slots : i # Receiver(last') => sk'[i] = sk[i]]_vars

\* C14
K_ReadOnly == [][last'.op = "Read" => sk' = sk]_vars

\* C15
K_ClearIsInit == [][last'.op = "Clear" => sk'[last'.s] = FreshSketch(sk[last'.s])]_vars

\* C16: every bin, the zero bucket and the count scale; exact min/max unchanged
K_Reweight ==
  [][(last'.op = "Reweight" /\ err' = "" /\ last'.num # last'.den) =>
       LET a == sk[last'.s]
           b == sk'[last'.s]
           n == last'.num
           d == last'.den
       IN /\ b.pos.bins = ScaleM(a.pos.bins, n, d) /\ b.neg.bins = ScaleM(a.neg.bins, n, d)
          /\ b.zero * d = a.zero * n /\ Count(b) * d = Count(a) * n
          /\ b.bag = ScaleM(a.bag, n, d)
          /\ b.xmin = a.xmin /\ b.xmax = a.xmax /\ b.xcnt * d = a.xcnt * n]_vars

\* C14: a copy equals its original
K_Copy == [][last'.op = "Copy" => sk'[last'.t] = sk[last'.s]]_vars

=============================================================================
