----------------------------- MODULE MC_Sketch -----------------------------
(* Model-checking configurations of Sketch.tla *)
EXTENDS Sketch

CONSTANT MaxTotal    \* state constraint: quanta absorbed per slot

Bounded == \A i \in Slots : Total(sk[i].bag) <= MaxTotal

MCQ == 4
MCQDen == 8
\* two bins per side with both edge positions, and zero-bucket tokens
TokBins2 == {10, 11, 12, 13, -10, -11, -12, -13}
TokBins3 == TokBins2 \cup {14, 15, -14, -15}
TokZero == {0, 2, -3}
TokRefused == {5000, 5001, -5001, 5002, -5002}
TokensC01 == TokBins2 \cup TokZero
TokensC11 == {10, 13, -10, -13, 0}
TokensSmall == {10, 13, -11, 0}
TokensC13 == {10, -13, 0, 5000, 5001, -5002}
WeightsUnit == {4}
WeightsFrac == {1, 2, 4, 8}
WeightsC13 == {-1, 0, 4}
FactorsMC == {<<1, 2>>, <<2, 1>>, <<1, 4>>}
FactorsC13 == {<<0, 1>>, <<-1, 1>>, <<2, 1>>, <<1, 1>>}

Plain1 == (1 :> NewSketch("plain", 1, "exact", 0, "exact", 0))
Plain2 == Plain1 @@ (2 :> NewSketch("plain", 1, "exact", 0, "exact", 0))
Plain3 == Plain2 @@ (3 :> NewSketch("plain", 1, "exact", 0, "exact", 0))
PlainTwoMappings == (1 :> NewSketch("plain", 1, "exact", 0, "exact", 0)) @@ (2 :> NewSketch("plain", 2, "exact", 0, "exact", 0))
Exact2 == (1 :> NewSketch("exact", 1, "exact", 0, "exact", 0)) @@ (2 :> NewSketch("exact", 1, "exact", 0, "exact", 0))
ExactPlain == (1 :> NewSketch("exact", 1, "exact", 0, "exact", 0)) @@ (2 :> NewSketch("plain", 1, "exact", 0, "exact", 0))
CollLowHigh == (1 :> NewSketch("plain", 1, "low", 2, "low", 2)) @@ (2 :> NewSketch("plain", 1, "high", 2, "high", 2))
CollLowExact == (1 :> NewSketch("plain", 1, "low", 2, "low", 1)) @@ (2 :> NewSketch("plain", 1, "exact", 0, "exact", 0))

OpsC01 == {"Add"}
OpsC11 == {"AddW", "Reweight"}
OpsC02 == {"Add", "Merge", "Clear"}
OpsC13 == {"AddW", "Merge", "Reweight"}
OpsAll == {"Add", "AddW", "Merge", "Copy", "Clear", "Reweight", "EncDec", "DecodeNew", "Proto", "Read"}

View == sk
=============================================================================
