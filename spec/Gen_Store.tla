------------------------------ MODULE Gen_Store ------------------------------
(***************************************************************************)
(* Behaviour generation for Store.tla (conformance direction A).           *)
(* Same actions as Store!Next plus a history variable whose entries carry  *)
(* the event and the specification's predicted observation of EVERY slot   *)
(* after it.  Histories of length Depth are printed as JSON, one per line; *)
(* the Go harness replays each on real stores and compares every slot      *)
(* after every step.  Used exhaustively (full tree to Depth) and with      *)
(* `-simulate` (long random histories, seeded).                            *)
(***************************************************************************)
EXTENDS Store, Json

CONSTANTS Depth,
          EndMarker,  \* TRUE: the last event of every history is a fixed Read (one printed history per simulated trace)
          SlotKeys,   \* [Slots -> SUBSET Keys]: the indexes offered to each slot (directed scenarios; Keys for all = undirected)
          Asc, Desc,  \* slots whose adds come in strictly ascending / descending index order (canonical order of a set of adds)
          Pairs       \* the <<source, receiver>> pairs offered to Merge/CopyTo/EncDec/Proto; {} = all

VARIABLE hist

GenInit == Init /\ hist = <<>>

\* A directed scenario restricts which events of Store!Next are offered; it never changes what an event does.
\* Deep trees (7+ events) over the whole event alphabet are out of reach; restricting each slot to the part it
\* plays (a narrow receiver, a wide argument filled in canonical order, one merge direction) reaches the
\* multi-step shapes the array code distinguishes (where the array offset sits relative to the merged range).
AddOps == {"Add", "AddWithCount", "AddBin", "AddRepeat"}
Directed(e, L) ==
  /\ e.op \in AddOps =>
       /\ e.i \in SlotKeys[e.s]
       /\ e.s \in Asc  => \A k \in DOMAIN L[e.s] : k < e.i
       /\ e.s \in Desc => \A k \in DOMAIN L[e.s] : k > e.i
  /\ e.op \in {"Merge", "CopyTo", "EncDec", "Proto"} => (Pairs = {} \/ <<e.s, e.t>> \in Pairs)

GenNext ==
  /\ Len(hist) < Depth
  /\ IF EndMarker /\ Len(hist) = Depth - 1
     THEN /\ last' = Ev("Read", 1, 0, 0, 0, 0, 0)
          /\ UNCHANGED <<st, ledger>>
     ELSE Next /\ Directed(last', ledger)
  /\ hist' = Append(hist, [ev |-> last',
                            pred |-> IF EndMarker THEN <<>> ELSE [s \in Slots |-> Obs(st'[s])]])

GenSpec == GenInit /\ [][GenNext]_<<vars, hist>>

\* In simulation mode (EndMarker) the predictions are computed only for the printed
\* history, by folding ApplyEvent over its events (TLC evaluates hist' for every
\* candidate successor, which would otherwise compute Obs for each of them).
WithPreds(h) ==
  LET S[k \in 0..Len(h)] == IF k = 0 THEN InitStores ELSE ApplyEvent(S[k - 1], h[k].ev)
  IN [k \in 1..Len(h) |-> [ev |-> h[k].ev, pred |-> [s \in Slots |-> Obs(S[k][s])]]]

Emit == (Len(hist) = Depth) =>
          PrintT(<<"BEH", ToJson(IF EndMarker THEN WithPreds(hist) ELSE hist)>>)

\* constants for generated configurations
GQ == 4
GKeys5 == 0..4
GKeys3 == {0, 2, 4}
GSlots2 == 1..2
GSlots3 == 1..3
GWeightsSmall == {0, 1, 6}
GWeightsAll == {0, 1, 2, 4, 8, 12}
GFactors == {<<1, 4>>, <<1, 2>>, <<2, 1>>, <<3, 1>>}
GRepeats == {33, 70}
Kinds2(k1, n1, k2, n2) == (1 :> NewStore(k1, n1)) @@ (2 :> NewStore(k2, n2))
Kinds3(k1, n1, k2, n2, k3, n3) == (1 :> NewStore(k1, n1)) @@ (2 :> NewStore(k2, n2)) @@ (3 :> NewStore(k3, n3))
=============================================================================
