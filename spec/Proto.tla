-------------------------------- MODULE Proto --------------------------------
(***************************************************************************)
(* The protobuf form of a store (ddsketch/pb/ddsketch.proto), C09: a store *)
(* message carries bins SPARSELY (map binCounts: index -> weight) and/or   *)
(* CONTIGUOUSLY (contiguousBinCounts with contiguousBinIndexOffset); both  *)
(* forms add up.  TLC enumerates hand-built messages mixing the two forms  *)
(* (overlapping, negative offsets, zero entries) and the documented        *)
(* content is compared with what MergeWithProto / FromProto build, for     *)
(* every target store kind (bounded targets fold, see StoreOps).           *)
(***************************************************************************)
EXTENDS StoreOps, TLC, Json

CONSTANTS Indexes,     \* indexes offered to sparse entries
          WeightsP,    \* weights (quanta) of entries, 0 allowed
          Offsets,     \* contiguous offsets
          MaxSparse, MaxContig

VARIABLE msg
vars == <<msg>>

SparseMaps == {m \in [Indexes -> WeightsP \cup {-1}] : Cardinality({i \in Indexes : m[i] # -1}) <= MaxSparse}   \* -1: no entry
ContigSeqs == UNION {[1..n -> WeightsP] : n \in 0..MaxContig}

Msgs == [sparse : SparseMaps, contig : ContigSeqs, offset : Offsets]

\* the documented content: both forms add up; zero weights hold nothing
Content(m) ==
  LET sp == {i \in Indexes : m.sparse[i] > 0}
      ct == {m.offset + j - 1 : j \in {k \in 1..Len(m.contig) : m.contig[k] > 0}}
  IN [i \in sp \cup ct |->
        (IF i \in sp THEN m.sparse[i] ELSE 0) +
        (IF i \in ct THEN m.contig[i - m.offset + 1] ELSE 0)]

Init == msg \in Msgs
Next == UNCHANGED vars
Spec == Init /\ [][Next]_vars

\* feeding the entries one by one (sparse entries in any order, then the contiguous ones) gives the content
P_AddsUp ==
  LET c  == Content(msg)
      st == MergeByAdds(MergeByAdds(NewStore("exact", 0), [i \in {j \in Indexes : msg.sparse[j] > 0} |-> msg.sparse[i]]),
                        [i \in {msg.offset + j - 1 : j \in {k \in 1..Len(msg.contig) : msg.contig[k] > 0}} |-> msg.contig[i - msg.offset + 1]])
  IN st.bins = c

P_Fold ==
  LET c == Content(msg)
  IN /\ MergeByAdds(NewStore("low", 2), c).bins = FoldLow(c, 2)
     /\ MergeByAdds(NewStore("high", 2), c).bins = FoldHigh(c, 2)

PIdx == -2..2
PWeights == {0, 2, 4}

SparseSeq(m) == LET idx == SortedSeq({i \in Indexes : m.sparse[i] # -1}) IN [k \in 1..Len(idx) |-> <<idx[k], m.sparse[idx[k]]>>]

Emit == PrintT(<<"BEH", ToJson([sparse |-> SparseSeq(msg), contig |-> msg.contig, offset |-> msg.offset,
                                 content |-> BinSeq(Content(msg)),
                                 low2 |-> BinSeq(FoldLow(Content(msg), 2)),
                                 high2 |-> BinSeq(FoldHigh(Content(msg), 2))])>>)
=============================================================================
