---- MODULE RunGenStore ----
EXTENDS Gen_Store
RSlots == 1..2
RKeys == {1, 2}
RWeights == {6}
RRepeats == {33}
RFactors == {<<1, 2>>}
ROps == {"Add", "AddRepeat", "EncDec", "Reweight", "CopyTo"}
RInit == (1 :> NewStore("exact", 0)) @@ (2 :> NewStore("exact", 0))
RSlotKeys == (1 :> {1, 2}) @@ (2 :> {1, 2})
RAsc == {}
RDesc == {}
RPairs == {}
====
