\* C08 quick: all streams over the full block alphabet
\* run by hand:  cd spec && tlc -workers 8 Gen_Wire.tla -config cfg/C08__Gen_Wire__all_streams_over_the_full_block_alphabet.cfg
SPECIFICATION Spec
CONSTANTS
  Q = 4
  Alphabet <- AlphaFull
  MaxBlocks = 3
INVARIANTS W_OrderIrrelevant W_StatsIgnoredByPlain W_ConcatIsMerge W_Errors W_FoldedTargets
CHECK_DEADLOCK FALSE
