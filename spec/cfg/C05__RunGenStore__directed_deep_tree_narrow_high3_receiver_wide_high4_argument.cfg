\* C05 quick: directed deep tree: narrow high3 receiver, wide high4 argument
\* run by hand:  cd spec && tlc -workers 8 RunGenStore.tla -config cfg/C05__RunGenStore__directed_deep_tree_narrow_high3_receiver_wide_high4_argument.cfg   (root module generated by the harness: see the .tla file next to this one; copy it to spec/ first)
INIT GenInit
NEXT GenNext
CONSTANTS
  Slots <- RSlots
  Keys <- RKeys
  Q = 4
  Weights <- RWeights
  Repeats <- RRepeats
  Factors <- RFactors
  Ops <- ROps
  InitStores <- RInit
  Depth = 7
  EndMarker = FALSE
  SlotKeys <- RSlotKeys
  Asc <- RAsc
  Desc <- RDesc
  Pairs <- RPairs
INVARIANT Emit
CHECK_DEADLOCK FALSE
