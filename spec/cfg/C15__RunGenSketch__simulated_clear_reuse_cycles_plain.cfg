\* C15 quick: simulated clear/reuse cycles, plain
\* run by hand:  cd spec && tlc -workers 8 RunGenSketch.tla -config cfg/C15__RunGenSketch__simulated_clear_reuse_cycles_plain.cfg -simulate num=125 -depth 17 -seed 1   (root module generated by the harness: see the .tla file next to this one; copy it to spec/ first)
INIT GenInit
NEXT GenNext
CONSTANTS
  Slots <- RSlots
  Q = 4
  QDen = 8
  Tokens <- RTokens
  Weights <- RWeights
  Factors <- RFactors
  Ops <- ROps
  InitSketches <- RInit
  MapToks = {1, 2}
  ScaleToks = {0, 1, 2, 3, 4, 5, 6}
  Depth = 16
  Lazy = TRUE
INVARIANT Emit
CHECK_DEADLOCK FALSE
