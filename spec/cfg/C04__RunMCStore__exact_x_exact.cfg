\* C04 quick: exact x exact
\* run by hand:  cd spec && tlc -workers 8 RunMCStore.tla -config cfg/C04__RunMCStore__exact_x_exact.cfg   (root module generated by the harness: see the .tla file next to this one; copy it to spec/ first)
SPECIFICATION Spec
CONSTANTS
  Slots <- RSlots
  Keys <- MCKeysQuick
  Q <- MCQ
  Weights <- MCWeights
  Repeats <- MCRepeats
  Factors <- MCFactors
  Ops <- OpsAll
  InitStores <- RInit
  MaxTotal = 4
CONSTRAINT Bounded
VIEW View
INVARIANTS TypeOK S_Fold S_Conserve S_Span S_CollapsedMeaning S_ExactWhenNarrow S_KeyAtRank S_MergeOrderIrrelevant S_FastMergeIsGeneric
PROPERTIES S_OnlyReceiverChanges S_ReadOnly S_ClearIsInit S_Reweight S_Copy S_ZeroWeight
CHECK_DEADLOCK FALSE
