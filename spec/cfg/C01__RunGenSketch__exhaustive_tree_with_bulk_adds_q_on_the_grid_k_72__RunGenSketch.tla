---- MODULE RunGenSketch ----
EXTENDS Gen_Sketch
RSlots == 1..1
RTokens == {10, 11, 14, -12}
RWeights == {4}
RFactors == {<<2, 1>>}
ROps == {"Add", "AddN"}
RInit == (1 :> NewSketch("plain", 1, "exact", 0, "exact", 0))
====
