\* C07 quick: longer streams over the reduced alphabet
\* run by hand:  cd spec && tlc -workers 8 Gen_Wire.tla -config cfg/C07__Gen_Wire__longer_streams_over_the_reduced_alphabet.cfg
SPECIFICATION Spec
CONSTANTS
  Q = 4
  Alphabet <- AlphaSmall
  MaxBlocks = 4
INVARIANTS Emit
CHECK_DEADLOCK FALSE
