---- MODULE RunMCSketch ----
EXTENDS MC_Sketch
RSlots == 1..1
RTokens == {10, 13, -10, -13, 0, 2}
RWeights == {2, 4}
RFactors == {<<2, 1>>}
ROps == {"Add", "AddW", "Clear"}
RInit == (1 :> NewSketch("plain", 1, "exact", 0, "exact", 0))
====
