---- MODULE RunGenSketch ----
EXTENDS Gen_Sketch
RSlots == 1..3
RTokens == {10, 11, 12, 13, 14, 15, -10, -11, -12, -13, -14, -15, 0, -1, 2, -3, 16, -17}
RWeights == {1, 2, 4, 6, 8, 132, 280, 4096}
RFactors == {<<1, 2>>, <<2, 1>>}
ROps == {"Add", "AddW", "AddN", "Merge", "Clear", "Reweight", "EncDec", "DecodeNew", "Concat"}
RInit == (1 :> NewSketch("plain", 1, "low", 2, "low", 3)) @@ (2 :> NewSketch("plain", 1, "exact", 0, "exact", 0)) @@ (3 :> NewSketch("plain", 1, "high", 2, "high", 1))
====
