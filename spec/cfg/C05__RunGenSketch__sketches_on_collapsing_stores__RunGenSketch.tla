---- MODULE RunGenSketch ----
EXTENDS Gen_Sketch
RSlots == 1..3
RTokens == {10, 11, 12, 13, 14, 15, -10, -11, -12, -13, -14, -15, 0, 2, 16, 17, -16, -17}
RWeights == {1, 2, 4, 8}
RFactors == {<<2, 1>>}
ROps == {"Add", "AddW", "Merge", "Copy", "Clear", "EncDec", "DecodeNew"}
RInit == (1 :> NewSketch("plain", 1, "low", 3, "low", 3)) @@ (2 :> NewSketch("plain", 1, "low", 3, "low", 3)) @@ (3 :> NewSketch("plain", 1, "high", 2, "high", 2))
====
