---- MODULE RunMCStore ----
EXTENDS MC_Store
RSlots == 1..2
RInit == (1 :> NewStore("low", 2)) @@ (2 :> NewStore("high", 3))
====
