---- MODULE RunGenStore ----
EXTENDS Gen_Store
RSlots == 1..2
RKeys == {0, 3}
RWeights == {6}
RRepeats == {33}
RFactors == {<<2, 1>>}
ROps == {"Add", "Merge", "Clear"}
RInit == (1 :> NewStore("exact", 0)) @@ (2 :> NewStore("exact", 0))
RSlotKeys == (1 :> {0, 3}) @@ (2 :> {0, 3})
RAsc == {}
RDesc == {}
RPairs == {}
====
