---- MODULE RunMCStore ----
EXTENDS MC_Store
RSlots == 1..2
RInit == (1 :> NewStore("exact", 0)) @@ (2 :> NewStore("exact", 0))
====
