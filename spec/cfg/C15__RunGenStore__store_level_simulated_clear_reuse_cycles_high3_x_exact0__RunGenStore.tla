---- MODULE RunGenStore ----
EXTENDS Gen_Store
RSlots == 1..3
RKeys == {0, 1, 2, 3, 4}
RWeights == {0, 1, 2, 4, 8, 12}
RRepeats == {33, 70}
RFactors == {<<1, 2>>, <<2, 1>>}
ROps == {"Add", "AddWithCount", "AddRepeat", "Merge", "CopyTo", "Clear", "Reweight", "EncDec", "Proto"}
RInit == (1 :> NewStore("high", 3)) @@ (2 :> NewStore("exact", 0)) @@ (3 :> NewStore("high", 3))
RSlotKeys == (1 :> {0, 1, 2, 3, 4}) @@ (2 :> {0, 1, 2, 3, 4}) @@ (3 :> {0, 1, 2, 3, 4})
RAsc == {}
RDesc == {}
RPairs == {}
====
