\* C02 quick: sketch trace validation split inputs merged, q at every k/(n-1)
\* run by hand:  cd spec && tlc -workers 8 Trace_Sketch.tla -config cfg/C02__Trace_Sketch__sketch_trace_validation_split_inputs_merged_q_at_every_k_n_1.cfg
INIT TraceInit
NEXT TraceNext
CONSTANTS
  Slots <- TSlots
  Q = 4
  QDen = 8
  Tokens = {}
  Weights = {}
  Factors = {}
  Ops = {}
  InitSketches = 0
  MapToks = {}
  ScaleToks = {}
INVARIANTS QueryOK CountOK
CHECK_DEADLOCK FALSE
