---- MODULE RunGenSketch ----
EXTENDS Gen_Sketch
RSlots == 1..2
RTokens == {10, 15, -11, 0}
RWeights == {2, 6, 132}
RFactors == {<<2, 1>>}
ROps == {"Add", "AddW", "EncDec", "DecodeNew", "Concat"}
RInit == (1 :> NewSketch("plain", 1, "exact", 0, "exact", 0)) @@ (2 :> NewSketch("plain", 1, "exact", 0, "exact", 0))
====
