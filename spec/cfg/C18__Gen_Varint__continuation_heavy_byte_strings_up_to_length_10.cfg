\* C18 quick: continuation-heavy byte strings up to length 10
\* run by hand:  cd spec && tlc -workers 8 Gen_Varint.tla -config cfg/C18__Gen_Varint__continuation_heavy_byte_strings_up_to_length_10.cfg
INIT Init
NEXT Next
CONSTANTS
  ByteAlphabet <- BytesCont
  MaxLen = 9
INVARIANTS EmitStrings V_Strings
CHECK_DEADLOCK FALSE
