\* C14 quick: 3 sketches, reads and copies
\* run by hand:  cd spec && tlc -workers 8 RunMCSketch.tla -config cfg/C14__RunMCSketch__3_sketches_reads_and_copies.cfg   (root module generated by the harness: see the .tla file next to this one; copy it to spec/ first)
SPECIFICATION Spec
CONSTANTS
  Slots <- RSlots
  Q = 4
  QDen = 8
  Tokens <- RTokens
  Weights <- RWeights
  Factors <- RFactors
  Ops <- ROps
  InitSketches <- RInit
  MapToks = {1, 2}
  ScaleToks = {0, 1}
  MaxTotal = 8
CONSTRAINT Bounded
VIEW View
INVARIANTS TypeOK K_Content
PROPERTIES K_ReadOnly K_OnlyReceiverChanges K_Copy K_ClearIsInit
CHECK_DEADLOCK FALSE
