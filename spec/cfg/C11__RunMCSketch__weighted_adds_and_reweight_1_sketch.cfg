\* C11 quick: weighted adds and reweight, 1 sketch
\* run by hand:  cd spec && tlc -workers 8 RunMCSketch.tla -config cfg/C11__RunMCSketch__weighted_adds_and_reweight_1_sketch.cfg   (root module generated by the harness: see the .tla file next to this one; copy it to spec/ first)
SPECIFICATION Spec
CONSTANTS
  Slots <- RSlots
  Q = 4
  QDen = 8
  Tokens <- RTokens
  Weights <- RWeights
  Factors <- RFactors
  Ops <- ROps
  InitSketches <- RInit
  MapToks = {1, 2}
  ScaleToks = {0, 1}
  MaxTotal = 16
CONSTRAINT Bounded
VIEW View
INVARIANTS TypeOK K_Content K_Merge K_Rank K_Ends K_Monotone
PROPERTIES K_Reweight K_OnlyReceiverChanges
CHECK_DEADLOCK FALSE
