---- MODULE RunGenStore ----
EXTENDS Gen_Store
RSlots == 1..2
RKeys == {0, 1, 2, 3, 4, 5}
RWeights == {6}
RRepeats == {33}
RFactors == {<<2, 1>>}
ROps == {"Add", "Merge", "Clear"}
RInit == (1 :> NewStore("high", 5)) @@ (2 :> NewStore("high", 6))
RSlotKeys == (1 :> {0, 1, 2, 3, 4, 5}) @@ (2 :> {0, 1, 2, 3, 4, 5})
RAsc == {}
RDesc == {}
RPairs == {}
====
