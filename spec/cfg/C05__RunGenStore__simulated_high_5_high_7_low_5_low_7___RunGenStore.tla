---- MODULE RunGenStore ----
EXTENDS Gen_Store
RSlots == 1..4
RKeys == {0, 1, 2, 3, 4, 5, 6, 7, 8}
RWeights == {0, 1, 2, 4, 8, 12}
RRepeats == {33}
RFactors == {<<1, 4>>, <<1, 2>>, <<2, 1>>, <<3, 1>>}
ROps == {"Add", "AddWithCount", "AddBin", "Merge", "CopyTo", "Clear", "Reweight", "EncDec", "Proto", "Read"}
RInit == (1 :> NewStore("high", 5)) @@ (2 :> NewStore("high", 7)) @@ (3 :> NewStore("low", 5)) @@ (4 :> NewStore("low", 7))
RSlotKeys == (1 :> {0, 1, 2, 3, 4, 5, 6, 7, 8}) @@ (2 :> {0, 1, 2, 3, 4, 5, 6, 7, 8}) @@ (3 :> {0, 1, 2, 3, 4, 5, 6, 7, 8}) @@ (4 :> {0, 1, 2, 3, 4, 5, 6, 7, 8})
RAsc == {}
RDesc == {}
RPairs == {}
====
