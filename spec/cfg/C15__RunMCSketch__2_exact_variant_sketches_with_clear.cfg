\* C15 quick: 2 exact-variant sketches with clear
\* run by hand:  cd spec && tlc -workers 8 RunMCSketch.tla -config cfg/C15__RunMCSketch__2_exact_variant_sketches_with_clear.cfg   (root module generated by the harness: see the .tla file next to this one; copy it to spec/ first)
SPECIFICATION Spec
CONSTANTS
  Slots <- RSlots
  Q = 4
  QDen = 8
  Tokens <- RTokens
  Weights <- RWeights
  Factors <- RFactors
  Ops <- ROps
  InitSketches <- RInit
  MapToks = {1, 2}
  ScaleToks = {0, 1}
  MaxTotal = 12
CONSTRAINT Bounded
VIEW View
INVARIANTS TypeOK K_Content X_Stats
PROPERTIES K_ClearIsInit K_OnlyReceiverChanges
CHECK_DEADLOCK FALSE
