\* C05 quick: exhaustive tree of adds into a sketch on collapsing stores
\* run by hand:  cd spec && tlc -workers 8 RunGenSketch.tla -config cfg/C05__RunGenSketch__exhaustive_tree_of_adds_into_a_sketch_on_collapsing_stores.cfg   (root module generated by the harness: see the .tla file next to this one; copy it to spec/ first)
INIT GenInit
NEXT GenNext
CONSTANTS
  Slots <- RSlots
  Q = 4
  QDen = 8
  Tokens <- RTokens
  Weights <- RWeights
  Factors <- RFactors
  Ops <- ROps
  InitSketches <- RInit
  MapToks = {1, 2}
  ScaleToks = {0, 1, 2, 3, 4, 5, 6}
  Depth = 4
  Lazy = FALSE
INVARIANT Emit
CHECK_DEADLOCK FALSE
