\* C06 quick: 2 sketches with encode/decode
\* run by hand:  cd spec && tlc -workers 8 RunMCSketch.tla -config cfg/C06__RunMCSketch__2_sketches_with_encode_decode.cfg   (root module generated by the harness: see the .tla file next to this one; copy it to spec/ first)
SPECIFICATION Spec
CONSTANTS
  Slots <- RSlots
  Q = 4
  QDen = 8
  Tokens <- RTokens
  Weights <- RWeights
  Factors <- RFactors
  Ops <- ROps
  InitSketches <- RInit
  MapToks = {1, 2}
  ScaleToks = {0, 1}
  MaxTotal = 8
CONSTRAINT Bounded
VIEW View
INVARIANTS TypeOK K_Content K_Merge
PROPERTIES K_OnlyReceiverChanges
CHECK_DEADLOCK FALSE
