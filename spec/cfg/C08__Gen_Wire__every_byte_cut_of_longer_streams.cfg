\* C08 quick: every byte cut of longer streams
\* run by hand:  cd spec && tlc -workers 8 Gen_Wire.tla -config cfg/C08__Gen_Wire__every_byte_cut_of_longer_streams.cfg
SPECIFICATION Spec
CONSTANTS
  Q = 4
  Alphabet <- AlphaSmall
  MaxBlocks = 4
INVARIANTS Emit
CHECK_DEADLOCK FALSE
