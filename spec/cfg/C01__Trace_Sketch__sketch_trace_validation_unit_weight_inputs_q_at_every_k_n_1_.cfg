\* C01 quick: sketch trace validation unit-weight inputs, q at every k/(n-1)
\* run by hand:  cd spec && tlc -workers 8 Trace_Sketch.tla -config cfg/C01__Trace_Sketch__sketch_trace_validation_unit_weight_inputs_q_at_every_k_n_1_.cfg
INIT TraceInit
NEXT TraceNext
CONSTANTS
  Slots <- TSlots
  Q = 4
  QDen = 8
  Tokens = {}
  Weights = {}
  Factors = {}
  Ops = {}
  InitSketches = 0
  MapToks = {}
  ScaleToks = {}
INVARIANTS QueryOK CountOK
CHECK_DEADLOCK FALSE
