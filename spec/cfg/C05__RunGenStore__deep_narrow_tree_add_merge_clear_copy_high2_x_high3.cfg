\* C05 quick: deep narrow tree add/merge/clear/copy high2 x high3
\* run by hand:  cd spec && tlc -workers 8 RunGenStore.tla -config cfg/C05__RunGenStore__deep_narrow_tree_add_merge_clear_copy_high2_x_high3.cfg   (root module generated by the harness: see the .tla file next to this one; copy it to spec/ first)
INIT GenInit
NEXT GenNext
CONSTANTS
  Slots <- RSlots
  Keys <- RKeys
  Q = 4
  Weights <- RWeights
  Repeats <- RRepeats
  Factors <- RFactors
  Ops <- ROps
  InitStores <- RInit
  Depth = 4
  EndMarker = FALSE
  SlotKeys <- RSlotKeys
  Asc <- RAsc
  Desc <- RDesc
  Pairs <- RPairs
INVARIANT Emit
CHECK_DEADLOCK FALSE
