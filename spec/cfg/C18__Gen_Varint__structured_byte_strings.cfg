\* C18 quick: structured byte strings
\* run by hand:  cd spec && tlc -workers 8 Gen_Varint.tla -config cfg/C18__Gen_Varint__structured_byte_strings.cfg
INIT Init
NEXT Next
CONSTANTS
  ByteAlphabet <- BytesEdge
  MaxLen = 6
INVARIANTS EmitStrings V_Strings
CHECK_DEADLOCK FALSE
