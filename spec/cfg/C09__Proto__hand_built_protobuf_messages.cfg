\* C09 quick: hand-built protobuf messages
\* run by hand:  cd spec && tlc -workers 8 Proto.tla -config cfg/C09__Proto__hand_built_protobuf_messages.cfg
SPECIFICATION Spec
CONSTANTS
  Indexes <- PIdx
  WeightsP <- PWeights
  Offsets <- PIdx
  MaxSparse = 2
  MaxContig = 3
INVARIANTS P_AddsUp P_Fold Emit
CHECK_DEADLOCK FALSE
