\* C04 quick: trace validation non-collapsing stores
\* run by hand:  cd spec && tlc -workers 8 Trace_Store.tla -config cfg/C04__Trace_Store__trace_validation_non_collapsing_stores.cfg
INIT TraceInit
NEXT TraceNext
CONSTANTS
  Slots <- TSlots
  Keys = {0}
  Q = 64
  Weights = {0}
  Repeats = {1}
  Factors = {}
  Ops = {}
  InitStores = 0
INVARIANTS Match Bounded LayoutOK
CHECK_DEADLOCK FALSE
