\* C17 quick: 2 sketches with mapping changes
\* run by hand:  cd spec && tlc -workers 8 RunMCSketch.tla -config cfg/C17__RunMCSketch__2_sketches_with_mapping_changes.cfg   (root module generated by the harness: see the .tla file next to this one; copy it to spec/ first)
SPECIFICATION Spec
CONSTANTS
  Slots <- RSlots
  Q = 4
  QDen = 8
  Tokens <- RTokens
  Weights <- RWeights
  Factors <- RFactors
  Ops <- ROps
  InitSketches <- RInit
  MapToks = {1, 2}
  ScaleToks = {0, 1}
  MaxTotal = 8
CONSTRAINT Bounded
VIEW View
INVARIANTS TypeOK K_Content K_Rank
PROPERTIES K_OnlyReceiverChanges K_ClearIsInit
CHECK_DEADLOCK FALSE
