---- MODULE RunMCSketch ----
EXTENDS MC_Sketch
RSlots == 1..2
RTokens == {10, -11, 0}
RWeights == {2, 4}
RFactors == {<<2, 1>>}
ROps == {"AddW", "ChangeMap", "Clear"}
RInit == (1 :> NewSketch("plain", 1, "exact", 0, "exact", 0)) @@ (2 :> NewSketch("plain", 1, "exact", 0, "exact", 0))
====
