\* C05 quick: tree with larger limits high5 x high6
\* run by hand:  cd spec && tlc -workers 8 RunGenStore.tla -config cfg/C05__RunGenStore__tree_with_larger_limits_high5_x_high6.cfg   (root module generated by the harness: see the .tla file next to this one; copy it to spec/ first)
INIT GenInit
NEXT GenNext
CONSTANTS
  Slots <- RSlots
  Keys <- RKeys
  Q = 4
  Weights <- RWeights
  Repeats <- RRepeats
  Factors <- RFactors
  Ops <- ROps
  InitStores <- RInit
  Depth = 4
  EndMarker = FALSE
  SlotKeys <- RSlotKeys
  Asc <- RAsc
  Desc <- RDesc
  Pairs <- RPairs
INVARIANT Emit
CHECK_DEADLOCK FALSE
