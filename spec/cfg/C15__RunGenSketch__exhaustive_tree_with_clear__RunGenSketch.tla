---- MODULE RunGenSketch ----
EXTENDS Gen_Sketch
RSlots == 1..2
RTokens == {10, 15, -11, 0}
RWeights == {132}
RFactors == {<<1, 2>>}
ROps == {"Add", "AddW", "Merge", "Clear", "EncDec", "DecodeNew"}
RInit == (1 :> NewSketch("plain", 1, "exact", 0, "exact", 0)) @@ (2 :> NewSketch("plain", 1, "exact", 0, "exact", 0))
====
