---- MODULE RunMCSketch ----
EXTENDS MC_Sketch
RSlots == 1..1
RTokens == {10, 13, -10, -13, 0}
RWeights == {1, 2, 4, 8}
RFactors == {<<1, 2>>, <<2, 1>>, <<1, 4>>}
ROps == {"AddW", "Reweight"}
RInit == (1 :> NewSketch("plain", 1, "exact", 0, "exact", 0))
====
