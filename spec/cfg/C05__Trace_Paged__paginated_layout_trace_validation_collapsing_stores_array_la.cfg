\* C05 quick: paginated-layout trace validation collapsing stores, array layout
\* run by hand:  cd spec && tlc -workers 8 Trace_Paged.tla -config cfg/C05__Trace_Paged__paginated_layout_trace_validation_collapsing_stores_array_la.cfg
INIT TraceInit
NEXT TraceNext
CONSTANTS
  PageLen = 32
  PageGrow = 8
  Unit = 64
  Slots <- TSlots
  Keys = {0}
  WeightsW = {0}
  MaxTotal = 0
INVARIANTS LayoutMatches
CHECK_DEADLOCK FALSE
