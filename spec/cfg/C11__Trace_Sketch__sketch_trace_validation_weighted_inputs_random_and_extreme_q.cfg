\* C11 quick: sketch trace validation weighted inputs, random and extreme q
\* run by hand:  cd spec && tlc -workers 8 Trace_Sketch.tla -config cfg/C11__Trace_Sketch__sketch_trace_validation_weighted_inputs_random_and_extreme_q.cfg
INIT TraceInit
NEXT TraceNext
CONSTANTS
  Slots <- TSlots
  Q = 4
  QDen = 8
  Tokens = {}
  Weights = {}
  Factors = {}
  Ops = {}
  InitSketches = 0
  MapToks = {}
  ScaleToks = {}
INVARIANTS QueryOK CountOK
CHECK_DEADLOCK FALSE
