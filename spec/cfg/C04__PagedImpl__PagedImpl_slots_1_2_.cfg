\* C04 quick: PagedImpl slots={1, 2}
\* run by hand:  cd spec && tlc -workers 8 PagedImpl.tla -config cfg/C04__PagedImpl__PagedImpl_slots_1_2_.cfg
SPECIFICATION Spec
CONSTANTS
  PageLen = 2
  PageGrow = 2
  Unit = 2
  Slots = {1, 2}
  Keys <- PKeys3
  WeightsW = {1, 2}
  MaxTotal = 2
CONSTRAINT BoundedP
INVARIANTS P_Refines P_Structure
CHECK_DEADLOCK FALSE
