\* C08 quick: every byte cut of streams over the full alphabet
\* run by hand:  cd spec && tlc -workers 8 Gen_Wire.tla -config cfg/C08__Gen_Wire__every_byte_cut_of_streams_over_the_full_alphabet.cfg
SPECIFICATION Spec
CONSTANTS
  Q = 4
  Alphabet <- AlphaFull
  MaxBlocks = 3
INVARIANTS Emit
CHECK_DEADLOCK FALSE
