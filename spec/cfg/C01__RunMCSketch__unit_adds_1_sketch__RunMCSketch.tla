---- MODULE RunMCSketch ----
EXTENDS MC_Sketch
RSlots == 1..1
RTokens == {10, 11, 12, 13, -10, -11, -12, -13, 0, 2, -3}
RWeights == {4}
RFactors == {<<2, 1>>}
ROps == {"Add"}
RInit == (1 :> NewSketch("plain", 1, "exact", 0, "exact", 0))
====
