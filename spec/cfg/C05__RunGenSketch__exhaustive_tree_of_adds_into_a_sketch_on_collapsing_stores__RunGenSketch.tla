---- MODULE RunGenSketch ----
EXTENDS Gen_Sketch
RSlots == 1..1
RTokens == {10, 12, 14, 16, -10, -12, -14}
RWeights == {4}
RFactors == {<<2, 1>>}
ROps == {"Add"}
RInit == (1 :> NewSketch("plain", 1, "high", 2, "low", 2))
====
