---- MODULE RunGenSketch ----
EXTENDS Gen_Sketch
RSlots == 1..1
RTokens == {10, 11, 12, 13, 14, 15, -10, -11, -12, -13, -14, -15, 0, 2}
RWeights == {1, 2, 3, 4, 8, 12, 4096}
RFactors == {<<1, 2>>, <<1, 4>>, <<2, 1>>, <<3, 1>>, <<1, 1>>}
ROps == {"AddW", "AddW", "Add", "Reweight"}
RInit == (1 :> NewSketch("plain", 1, "exact", 0, "exact", 0))
====
