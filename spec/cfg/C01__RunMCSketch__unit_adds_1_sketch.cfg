\* C01 quick: unit adds, 1 sketch
\* run by hand:  cd spec && tlc -workers 8 RunMCSketch.tla -config cfg/C01__RunMCSketch__unit_adds_1_sketch.cfg   (root module generated by the harness: see the .tla file next to this one; copy it to spec/ first)
SPECIFICATION Spec
CONSTANTS
  Slots <- RSlots
  Q = 4
  QDen = 8
  Tokens <- RTokens
  Weights <- RWeights
  Factors <- RFactors
  Ops <- ROps
  InitSketches <- RInit
  MapToks = {1, 2}
  ScaleToks = {0, 1}
  MaxTotal = 20
CONSTRAINT Bounded
VIEW View
INVARIANTS TypeOK K_Content K_Merge K_Rank K_Ends K_Monotone
PROPERTIES K_OnlyReceiverChanges
CHECK_DEADLOCK FALSE
