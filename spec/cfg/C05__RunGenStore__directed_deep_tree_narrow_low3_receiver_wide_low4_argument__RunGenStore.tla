---- MODULE RunGenStore ----
EXTENDS Gen_Store
RSlots == 1..2
RKeys == {0, 1, 2, 3}
RWeights == {6}
RRepeats == {33}
RFactors == {<<2, 1>>}
ROps == {"Add", "Merge"}
RInit == (1 :> NewStore("low", 3)) @@ (2 :> NewStore("low", 4))
RSlotKeys == (1 :> {1, 2}) @@ (2 :> {0, 1, 2, 3})
RAsc == {}
RDesc == {2}
RPairs == {<<2, 1>>}
====
