\* C05 quick: exhaustive tree low2 x low4
\* run by hand:  cd spec && tlc -workers 8 RunGenStore.tla -config cfg/C05__RunGenStore__exhaustive_tree_low2_x_low4.cfg   (root module generated by the harness: see the .tla file next to this one; copy it to spec/ first)
INIT GenInit
NEXT GenNext
CONSTANTS
  Slots <- RSlots
  Keys <- RKeys
  Q = 4
  Weights <- RWeights
  Repeats <- RRepeats
  Factors <- RFactors
  Ops <- ROps
  InitStores <- RInit
  Depth = 3
  EndMarker = FALSE
  SlotKeys <- RSlotKeys
  Asc <- RAsc
  Desc <- RDesc
  Pairs <- RPairs
INVARIANT Emit
CHECK_DEADLOCK FALSE
