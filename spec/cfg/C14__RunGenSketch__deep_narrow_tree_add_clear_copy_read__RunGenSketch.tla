---- MODULE RunGenSketch ----
EXTENDS Gen_Sketch
RSlots == 1..2
RTokens == {10, 13}
RWeights == {132}
RFactors == {<<2, 1>>}
ROps == {"AddW", "Clear", "Copy", "Read"}
RInit == (1 :> NewSketch("plain", 1, "exact", 0, "exact", 0)) @@ (2 :> NewSketch("plain", 1, "exact", 0, "exact", 0))
====
