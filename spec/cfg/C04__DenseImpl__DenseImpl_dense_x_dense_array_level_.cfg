\* C04 quick: DenseImpl dense x dense (array level)
\* run by hand:  cd spec && tlc -workers 8 DenseImpl.tla -config cfg/C04__DenseImpl__DenseImpl_dense_x_dense_array_level_.cfg
SPECIFICATION Spec
CONSTANTS
  Overhead = 2
  FixF3 = TRUE
  Slots = {1, 2}
  Keys <- DKeysSmall
  Weights = {1}
  InitKinds <- IK_ExactExact
  MaxTotal = 3
CONSTRAINT BoundedC
INVARIANTS I_NoPanic I_Refines I_Structure I_KeyAtRank
CHECK_DEADLOCK FALSE
