---- MODULE RunGenSketch ----
EXTENDS Gen_Sketch
RSlots == 1..3
RTokens == {10, 11, 12, 13, 14, 15, -10, -11, -12, -13, -14, -15, 0, 2}
RWeights == {0, 2, 4, 8}
RFactors == {<<1, 2>>, <<2, 1>>}
ROps == {"Add", "AddW", "Merge", "Copy", "Clear", "Reweight", "ChangeMap", "Read"}
RInit == (1 :> NewSketch("exact", 1, "exact", 0, "exact", 0)) @@ (2 :> NewSketch("exact", 1, "exact", 0, "exact", 0)) @@ (3 :> NewSketch("plain", 2, "exact", 0, "exact", 0))
====
