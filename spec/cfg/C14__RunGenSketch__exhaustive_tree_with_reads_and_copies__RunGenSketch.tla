---- MODULE RunGenSketch ----
EXTENDS Gen_Sketch
RSlots == 1..2
RTokens == {10, 13, -11}
RWeights == {132}
RFactors == {<<1, 2>>}
ROps == {"Add", "AddW", "Merge", "Copy", "Clear", "Reweight", "EncDec", "Proto", "Read"}
RInit == (1 :> NewSketch("plain", 1, "exact", 0, "exact", 0)) @@ (2 :> NewSketch("plain", 1, "exact", 0, "exact", 0))
====
