\* C10 quick: exact variant, 2 sketches
\* run by hand:  cd spec && tlc -workers 8 RunMCSketch.tla -config cfg/C10__RunMCSketch__exact_variant_2_sketches.cfg   (root module generated by the harness: see the .tla file next to this one; copy it to spec/ first)
SPECIFICATION Spec
CONSTANTS
  Slots <- RSlots
  Q = 4
  QDen = 8
  Tokens <- RTokens
  Weights <- RWeights
  Factors <- RFactors
  Ops <- ROps
  InitSketches <- RInit
  MapToks = {1, 2}
  ScaleToks = {0, 1}
  MaxTotal = 6
CONSTRAINT Bounded
VIEW View
INVARIANTS TypeOK K_Content X_Stats K_Rank
PROPERTIES K_Refused K_Reweight K_ClearIsInit K_Copy
CHECK_DEADLOCK FALSE
