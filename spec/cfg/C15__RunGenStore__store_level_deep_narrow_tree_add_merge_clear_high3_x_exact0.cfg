\* C15 quick: store-level deep narrow tree add/merge/clear high3 x exact0
\* run by hand:  cd spec && tlc -workers 8 RunGenStore.tla -config cfg/C15__RunGenStore__store_level_deep_narrow_tree_add_merge_clear_high3_x_exact0.cfg   (root module generated by the harness: see the .tla file next to this one; copy it to spec/ first)
INIT GenInit
NEXT GenNext
CONSTANTS
  Slots <- RSlots
  Keys <- RKeys
  Q = 4
  Weights <- RWeights
  Repeats <- RRepeats
  Factors <- RFactors
  Ops <- ROps
  InitStores <- RInit
  Depth = 5
  EndMarker = FALSE
  SlotKeys <- RSlotKeys
  Asc <- RAsc
  Desc <- RDesc
  Pairs <- RPairs
INVARIANT Emit
CHECK_DEADLOCK FALSE
