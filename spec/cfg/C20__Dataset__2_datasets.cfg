\* C20 quick: 2 datasets
\* run by hand:  cd spec && tlc -workers 8 Dataset.tla -config cfg/C20__Dataset__2_datasets.cfg
SPECIFICATION Spec
CONSTANTS
  Sets = {1, 2}
  Values <- DValuesSmall
  QDen = 8
  MaxLen = 4
  Ops = {"Add", "Merge", "Query"}
INVARIANTS D_Refines
PROPERTIES D_QueryKeepsBag D_MergeArg
VIEW View
CHECK_DEADLOCK FALSE
