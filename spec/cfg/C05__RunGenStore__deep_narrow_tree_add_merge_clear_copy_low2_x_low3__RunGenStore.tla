---- MODULE RunGenStore ----
EXTENDS Gen_Store
RSlots == 1..2
RKeys == {0, 2, 4}
RWeights == {6}
RRepeats == {33}
RFactors == {<<2, 1>>}
ROps == {"Add", "Merge", "Clear", "CopyTo"}
RInit == (1 :> NewStore("low", 2)) @@ (2 :> NewStore("low", 3))
RSlotKeys == (1 :> {0, 2, 4}) @@ (2 :> {0, 2, 4})
RAsc == {}
RDesc == {}
RPairs == {}
====
