\* C02 quick: 3 sketches, add/merge/clear
\* run by hand:  cd spec && tlc -workers 8 RunMCSketch.tla -config cfg/C02__RunMCSketch__3_sketches_add_merge_clear.cfg   (root module generated by the harness: see the .tla file next to this one; copy it to spec/ first)
SPECIFICATION Spec
CONSTANTS
  Slots <- RSlots
  Q = 4
  QDen = 8
  Tokens <- RTokens
  Weights <- RWeights
  Factors <- RFactors
  Ops <- ROps
  InitSketches <- RInit
  MapToks = {1, 2}
  ScaleToks = {0, 1}
  MaxTotal = 8
CONSTRAINT Bounded
VIEW View
INVARIANTS TypeOK K_Content K_Merge K_Rank K_Monotone
PROPERTIES K_OnlyReceiverChanges K_ClearIsInit K_Refused
CHECK_DEADLOCK FALSE
