\* C15 quick: store-level simulated clear/reuse cycles high3 x exact0
\* run by hand:  cd spec && tlc -workers 8 RunGenStore.tla -config cfg/C15__RunGenStore__store_level_simulated_clear_reuse_cycles_high3_x_exact0.cfg -simulate num=250 -depth 17 -seed 1   (root module generated by the harness: see the .tla file next to this one; copy it to spec/ first)
INIT GenInit
NEXT GenNext
CONSTANTS
  Slots <- RSlots
  Keys <- RKeys
  Q = 4
  Weights <- RWeights
  Repeats <- RRepeats
  Factors <- RFactors
  Ops <- ROps
  InitStores <- RInit
  Depth = 16
  EndMarker = TRUE
  SlotKeys <- RSlotKeys
  Asc <- RAsc
  Desc <- RDesc
  Pairs <- RPairs
INVARIANT Emit
CHECK_DEADLOCK FALSE
