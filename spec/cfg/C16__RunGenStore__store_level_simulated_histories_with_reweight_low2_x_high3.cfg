\* C16 quick: store-level simulated histories with reweight low2 x high3
\* run by hand:  cd spec && tlc -workers 8 RunGenStore.tla -config cfg/C16__RunGenStore__store_level_simulated_histories_with_reweight_low2_x_high3.cfg -simulate num=375 -depth 15 -seed 1   (root module generated by the harness: see the .tla file next to this one; copy it to spec/ first)
INIT GenInit
NEXT GenNext
CONSTANTS
  Slots <- RSlots
  Keys <- RKeys
  Q = 4
  Weights <- RWeights
  Repeats <- RRepeats
  Factors <- RFactors
  Ops <- ROps
  InitStores <- RInit
  Depth = 14
  EndMarker = TRUE
  SlotKeys <- RSlotKeys
  Asc <- RAsc
  Desc <- RDesc
  Pairs <- RPairs
INVARIANT Emit
CHECK_DEADLOCK FALSE
