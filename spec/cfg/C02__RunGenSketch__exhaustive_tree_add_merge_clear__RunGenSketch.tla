---- MODULE RunGenSketch ----
EXTENDS Gen_Sketch
RSlots == 1..3
RTokens == {11, -10}
RWeights == {4}
RFactors == {<<2, 1>>}
ROps == {"Add", "Merge", "Clear"}
RInit == (1 :> NewSketch("plain", 1, "exact", 0, "exact", 0)) @@ (2 :> NewSketch("plain", 1, "exact", 0, "exact", 0)) @@ (3 :> NewSketch("plain", 1, "exact", 0, "exact", 0))
====
