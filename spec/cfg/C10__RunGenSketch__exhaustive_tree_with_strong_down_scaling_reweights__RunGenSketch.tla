---- MODULE RunGenSketch ----
EXTENDS Gen_Sketch
RSlots == 1..1
RTokens == {11, 13, -12}
RWeights == {4096, 12288}
RFactors == {<<1, 1024>>, <<1, 4096>>, <<3, 1>>}
ROps == {"AddW", "Reweight"}
RInit == (1 :> NewSketch("exact", 1, "exact", 0, "exact", 0))
====
