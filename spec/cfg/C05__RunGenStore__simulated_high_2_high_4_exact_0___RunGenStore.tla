---- MODULE RunGenStore ----
EXTENDS Gen_Store
RSlots == 1..3
RKeys == {0, 1, 2, 3, 4}
RWeights == {0, 1, 2, 4, 8, 12}
RRepeats == {33}
RFactors == {<<1, 4>>, <<1, 2>>, <<2, 1>>, <<3, 1>>}
ROps == {"Add", "AddWithCount", "AddBin", "Merge", "CopyTo", "Clear", "Reweight", "EncDec", "Proto", "Read"}
RInit == (1 :> NewStore("high", 2)) @@ (2 :> NewStore("high", 4)) @@ (3 :> NewStore("exact", 0))
RSlotKeys == (1 :> {0, 1, 2, 3, 4}) @@ (2 :> {0, 1, 2, 3, 4}) @@ (3 :> {0, 1, 2, 3, 4})
RAsc == {}
RDesc == {}
RPairs == {}
====
