\* C04 quick: array-layout trace validation dense stores, array layout
\* run by hand:  cd spec && tlc -workers 8 Trace_Dense.tla -config cfg/C04__Trace_Dense__array_layout_trace_validation_dense_stores_array_layout.cfg
INIT TraceInit
NEXT TraceNext
CONSTANTS
  Overhead = 64
  FixF3 = TRUE
  Slots <- TSlots
  Keys = {0}
  Weights = {0}
  InitKinds = 0
  MaxTotal = 0
INVARIANTS LayoutMatches
CHECK_DEADLOCK FALSE
