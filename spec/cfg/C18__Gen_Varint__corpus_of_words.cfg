\* C18 quick: corpus of words
\* run by hand:  cd spec && tlc -workers 8 Gen_Varint.tla -config cfg/C18__Gen_Varint__corpus_of_words.cfg
INIT Init
NEXT Next
CONSTANTS
  ByteAlphabet <- BytesEdge
  MaxLen = 0
INVARIANTS EmitCorpus V_Corpus V_Strings
CHECK_DEADLOCK FALSE
