\* C12 quick: 1 sketch, all sign mixes
\* run by hand:  cd spec && tlc -workers 8 RunMCSketch.tla -config cfg/C12__RunMCSketch__1_sketch_all_sign_mixes.cfg   (root module generated by the harness: see the .tla file next to this one; copy it to spec/ first)
SPECIFICATION Spec
CONSTANTS
  Slots <- RSlots
  Q = 4
  QDen = 8
  Tokens <- RTokens
  Weights <- RWeights
  Factors <- RFactors
  Ops <- ROps
  InitSketches <- RInit
  MapToks = {1, 2}
  ScaleToks = {0, 1}
  MaxTotal = 16
CONSTRAINT Bounded
VIEW View
INVARIANTS TypeOK K_Content K_Ends K_Monotone K_Rank
PROPERTIES K_ClearIsInit
CHECK_DEADLOCK FALSE
