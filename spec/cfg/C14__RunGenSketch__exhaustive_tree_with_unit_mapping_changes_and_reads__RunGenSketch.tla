---- MODULE RunGenSketch ----
EXTENDS Gen_Sketch
RSlots == 1..2
RTokens == {11, -12}
RWeights == {6}
RFactors == {<<2, 1>>}
ROps == {"AddW", "ChangeMap", "Clear", "Read"}
RInit == (1 :> NewSketch("exact", 1, "exact", 0, "exact", 0)) @@ (2 :> NewSketch("exact", 1, "exact", 0, "exact", 0))
====
