---- MODULE RunMCStore ----
EXTENDS MC_Store
RSlots == 1..2
RInit == (1 :> NewStore("low", 3)) @@ (2 :> NewStore("low", 1))
====
