---- MODULE RunGenSketch ----
EXTENDS Gen_Sketch
RSlots == 1..1
RTokens == {10, 13, -10, -13, 0}
RWeights == {1, 2, 4, 12}
RFactors == {<<1, 2>>, <<1, 4>>, <<3, 1>>}
ROps == {"AddW", "Reweight"}
RInit == (1 :> NewSketch("plain", 1, "exact", 0, "exact", 0))
====
