\* C01 quick: exhaustive tree with bulk adds, q on the grid k/72
\* run by hand:  cd spec && tlc -workers 8 RunGenSketch.tla -config cfg/C01__RunGenSketch__exhaustive_tree_with_bulk_adds_q_on_the_grid_k_72.cfg   (root module generated by the harness: see the .tla file next to this one; copy it to spec/ first)
INIT GenInit
NEXT GenNext
CONSTANTS
  Slots <- RSlots
  Q = 4
  QDen = 72
  Tokens <- RTokens
  Weights <- RWeights
  Factors <- RFactors
  Ops <- ROps
  InitSketches <- RInit
  MapToks = {1, 2}
  ScaleToks = {0, 1, 2, 3, 4, 5, 6}
  Depth = 4
  Lazy = FALSE
INVARIANT Emit
CHECK_DEADLOCK FALSE
