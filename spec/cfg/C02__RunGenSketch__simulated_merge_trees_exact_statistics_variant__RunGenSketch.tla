---- MODULE RunGenSketch ----
EXTENDS Gen_Sketch
RSlots == 1..3
RTokens == {10, 11, 12, 13, -10, -11, -12, -13, 0, 2}
RWeights == {1, 4, 8}
RFactors == {<<2, 1>>}
ROps == {"Add", "AddW", "Merge", "Clear"}
RInit == (1 :> NewSketch("exact", 1, "exact", 0, "exact", 0)) @@ (2 :> NewSketch("exact", 1, "exact", 0, "exact", 0)) @@ (3 :> NewSketch("exact", 1, "exact", 0, "exact", 0))
====
