\* C18 quick: trace of real encodings
\* run by hand:  cd spec && tlc -workers 8 Trace_Varint.tla -config cfg/C18__Trace_Varint__trace_of_real_encodings.cfg
INIT TraceInit
NEXT TraceNext
CONSTANTS
  ByteAlphabet = {}
  MaxLen = 0
INVARIANTS RealEncodingMatches
CHECK_DEADLOCK FALSE
