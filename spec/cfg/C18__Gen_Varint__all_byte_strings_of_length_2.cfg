\* C18 quick: all byte strings of length <= 2
\* run by hand:  cd spec && tlc -workers 8 Gen_Varint.tla -config cfg/C18__Gen_Varint__all_byte_strings_of_length_2.cfg
INIT Init
NEXT Next
CONSTANTS
  ByteAlphabet <- Bytes256
  MaxLen = 2
INVARIANTS EmitStrings V_Strings
CHECK_DEADLOCK FALSE
