\* C15 quick: store-level directed tree collapse/clear/merge/add high2 x high4
\* run by hand:  cd spec && tlc -workers 8 RunGenStore.tla -config cfg/C15__RunGenStore__store_level_directed_tree_collapse_clear_merge_add_high2_x_h.cfg   (root module generated by the harness: see the .tla file next to this one; copy it to spec/ first)
INIT GenInit
NEXT GenNext
CONSTANTS
  Slots <- RSlots
  Keys <- RKeys
  Q = 4
  Weights <- RWeights
  Repeats <- RRepeats
  Factors <- RFactors
  Ops <- ROps
  InitStores <- RInit
  Depth = 6
  EndMarker = FALSE
  SlotKeys <- RSlotKeys
  Asc <- RAsc
  Desc <- RDesc
  Pairs <- RPairs
INVARIANT Emit
CHECK_DEADLOCK FALSE
