---- MODULE RunGenStore ----
EXTENDS Gen_Store
RSlots == 1..2
RKeys == {0, 2, 4}
RWeights == {6}
RRepeats == {33}
RFactors == {<<2, 1>>}
ROps == {"Add", "Merge", "Clear"}
RInit == (1 :> NewStore("high", 2)) @@ (2 :> NewStore("high", 4))
RSlotKeys == (1 :> {0, 4}) @@ (2 :> {2})
RAsc == {}
RDesc == {}
RPairs == {<<2, 1>>}
====
