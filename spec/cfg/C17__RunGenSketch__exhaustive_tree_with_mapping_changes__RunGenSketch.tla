---- MODULE RunGenSketch ----
EXTENDS Gen_Sketch
RSlots == 1..2
RTokens == {10, 13, -11, 0}
RWeights == {4, 6}
RFactors == {<<2, 1>>}
ROps == {"AddW", "ChangeMap"}
RInit == (1 :> NewSketch("plain", 1, "exact", 0, "exact", 0)) @@ (2 :> NewSketch("plain", 1, "exact", 0, "exact", 0))
====
