---- MODULE RunGenSketch ----
EXTENDS Gen_Sketch
RSlots == 1..3
RTokens == {10, 11, 12, 13, 14, 15, -10, -11, -12, -13, -14, -15, 0, -1, 2, -3}
RWeights == {1, 4, 8, 132}
RFactors == {<<2, 1>>}
ROps == {"Add", "AddW", "Merge", "Merge", "EncDec", "Clear", "Copy"}
RInit == (1 :> NewSketch("plain", 1, "exact", 0, "exact", 0)) @@ (2 :> NewSketch("plain", 1, "exact", 0, "exact", 0)) @@ (3 :> NewSketch("plain", 1, "exact", 0, "exact", 0))
====
