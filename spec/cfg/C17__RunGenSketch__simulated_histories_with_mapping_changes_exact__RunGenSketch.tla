---- MODULE RunGenSketch ----
EXTENDS Gen_Sketch
RSlots == 1..3
RTokens == {10, 11, 12, 13, 14, 15, -10, -11, -12, -13, -14, -15, 0, 16, 17, -16, -17}
RWeights == {1, 2, 4, 8, 12, 132}
RFactors == {<<2, 1>>}
ROps == {"Add", "AddW", "Merge", "Clear", "ChangeMap", "Copy"}
RInit == (1 :> NewSketch("exact", 1, "exact", 0, "exact", 0)) @@ (2 :> NewSketch("exact", 1, "exact", 0, "exact", 0)) @@ (3 :> NewSketch("exact", 2, "exact", 0, "exact", 0))
====
