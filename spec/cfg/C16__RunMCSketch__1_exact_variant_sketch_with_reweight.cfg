\* C16 quick: 1 exact-variant sketch with reweight
\* run by hand:  cd spec && tlc -workers 8 RunMCSketch.tla -config cfg/C16__RunMCSketch__1_exact_variant_sketch_with_reweight.cfg   (root module generated by the harness: see the .tla file next to this one; copy it to spec/ first)
SPECIFICATION Spec
CONSTANTS
  Slots <- RSlots
  Q = 4
  QDen = 8
  Tokens <- RTokens
  Weights <- RWeights
  Factors <- RFactors
  Ops <- ROps
  InitSketches <- RInit
  MapToks = {1, 2}
  ScaleToks = {0, 1}
  MaxTotal = 12
CONSTRAINT Bounded
VIEW View
INVARIANTS TypeOK K_Content X_Stats
PROPERTIES K_Reweight K_Refused
CHECK_DEADLOCK FALSE
