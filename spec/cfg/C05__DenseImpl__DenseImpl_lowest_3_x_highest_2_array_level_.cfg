\* C05 quick: DenseImpl lowest 3 x highest 2 (array level)
\* run by hand:  cd spec && tlc -workers 8 DenseImpl.tla -config cfg/C05__DenseImpl__DenseImpl_lowest_3_x_highest_2_array_level_.cfg
SPECIFICATION Spec
CONSTANTS
  Overhead = 1
  FixF3 = TRUE
  Slots = {1, 2}
  Keys <- DKeysSmall
  Weights = {1}
  InitKinds <- IK_Low3High2
  MaxTotal = 3
CONSTRAINT BoundedC
INVARIANTS I_NoPanic I_Refines I_Structure I_KeyAtRank
CHECK_DEADLOCK FALSE
