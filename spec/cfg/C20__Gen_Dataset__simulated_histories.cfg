\* C20 quick: simulated histories
\* run by hand:  cd spec && tlc -workers 8 Gen_Dataset.tla -config cfg/C20__Gen_Dataset__simulated_histories.cfg -simulate num=500 -depth 15 -seed 1
INIT GenInit
NEXT GenNext
CONSTANTS
  Sets = {1, 2}
  Values <- DValues
  QDen = 8
  MaxLen = 40
  Ops = {"Add", "Merge", "Query"}
  Depth = 14
  Lazy = TRUE
INVARIANT Emit
CHECK_DEADLOCK FALSE
