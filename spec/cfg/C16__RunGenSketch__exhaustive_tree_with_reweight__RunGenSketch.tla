---- MODULE RunGenSketch ----
EXTENDS Gen_Sketch
RSlots == 1..1
RTokens == {10, 11, -11, 0}
RWeights == {4, 6, 132}
RFactors == {<<1, 2>>, <<3, 1>>, <<1, 1>>}
ROps == {"AddW", "Reweight"}
RInit == (1 :> NewSketch("exact", 1, "exact", 0, "exact", 0))
====
