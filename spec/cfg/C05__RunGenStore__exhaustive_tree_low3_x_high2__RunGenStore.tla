---- MODULE RunGenStore ----
EXTENDS Gen_Store
RSlots == 1..2
RKeys == {0, 2, 4}
RWeights == {6}
RRepeats == {33}
RFactors == {<<3, 2>>, <<1, 2>>}
ROps == {"Add", "AddWithCount", "Merge", "CopyTo", "Clear", "Reweight", "EncDec"}
RInit == (1 :> NewStore("low", 3)) @@ (2 :> NewStore("high", 2))
RSlotKeys == (1 :> {0, 2, 4}) @@ (2 :> {0, 2, 4})
RAsc == {}
RDesc == {}
RPairs == {}
====
