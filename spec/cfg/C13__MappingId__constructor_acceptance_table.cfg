\* C13 quick: constructor acceptance table
\* run by hand:  cd spec && tlc -workers 8 MappingId.tla -config cfg/C13__MappingId__constructor_acceptance_table.cfg
SPECIFICATION Spec
CONSTANTS
  Kinds <- AllKinds
  GammaToks = {1}
  OffsetToks = {1}
INVARIANTS EmitTable
CHECK_DEADLOCK FALSE
