---- MODULE RunMCSketch ----
EXTENDS MC_Sketch
RSlots == 1..3
RTokens == {10, -11, 0}
RWeights == {2}
RFactors == {<<2, 1>>}
ROps == {"Add", "Merge", "Copy", "Clear", "Read", "Reweight"}
RInit == (1 :> NewSketch("plain", 1, "exact", 0, "exact", 0)) @@ (2 :> NewSketch("plain", 1, "exact", 0, "exact", 0)) @@ (3 :> NewSketch("plain", 1, "exact", 0, "exact", 0))
====
