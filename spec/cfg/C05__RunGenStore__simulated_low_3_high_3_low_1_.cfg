\* C05 quick: simulated [{low 3} {high 3} {low 1}]
\* run by hand:  cd spec && tlc -workers 8 RunGenStore.tla -config cfg/C05__RunGenStore__simulated_low_3_high_3_low_1_.cfg -simulate num=200 -depth 15 -seed 1   (root module generated by the harness: see the .tla file next to this one; copy it to spec/ first)
INIT GenInit
NEXT GenNext
CONSTANTS
  Slots <- RSlots
  Keys <- RKeys
  Q = 4
  Weights <- RWeights
  Repeats <- RRepeats
  Factors <- RFactors
  Ops <- ROps
  InitStores <- RInit
  Depth = 14
  EndMarker = TRUE
  SlotKeys <- RSlotKeys
  Asc <- RAsc
  Desc <- RDesc
  Pairs <- RPairs
INVARIANT Emit
CHECK_DEADLOCK FALSE
