\* C04 quick: deep narrow tree add/merge/clear
\* run by hand:  cd spec && tlc -workers 8 RunGenStore.tla -config cfg/C04__RunGenStore__deep_narrow_tree_add_merge_clear.cfg   (root module generated by the harness: see the .tla file next to this one; copy it to spec/ first)
INIT GenInit
NEXT GenNext
CONSTANTS
  Slots <- RSlots
  Keys <- RKeys
  Q = 4
  Weights <- RWeights
  Repeats <- RRepeats
  Factors <- RFactors
  Ops <- ROps
  InitStores <- RInit
  Depth = 5
  EndMarker = FALSE
  SlotKeys <- RSlotKeys
  Asc <- RAsc
  Desc <- RDesc
  Pairs <- RPairs
INVARIANT Emit
CHECK_DEADLOCK FALSE
