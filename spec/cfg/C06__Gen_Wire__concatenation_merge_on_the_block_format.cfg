\* C06 quick: concatenation = merge on the block format
\* run by hand:  cd spec && tlc -workers 8 Gen_Wire.tla -config cfg/C06__Gen_Wire__concatenation_merge_on_the_block_format.cfg
SPECIFICATION Spec
CONSTANTS
  Q = 4
  Alphabet <- AlphaSmall
  MaxBlocks = 3
INVARIANTS W_OrderIrrelevant W_StatsIgnoredByPlain W_ConcatIsMerge W_Errors W_FoldedTargets
CHECK_DEADLOCK FALSE
