\* C07 quick: streams over the full alphabet
\* run by hand:  cd spec && tlc -workers 8 Gen_Wire.tla -config cfg/C07__Gen_Wire__streams_over_the_full_alphabet.cfg
SPECIFICATION Spec
CONSTANTS
  Q = 4
  Alphabet <- AlphaFull
  MaxBlocks = 3
INVARIANTS Emit
CHECK_DEADLOCK FALSE
