\* C07 quick: producer real encodings
\* run by hand:  cd spec && tlc -workers 8 Trace_Wire.tla -config cfg/C07__Trace_Wire__producer_real_encodings.cfg
INIT TraceInit
NEXT TraceNext
CONSTANTS
  Q = 64
  Alphabet = {}
  MaxBlocks = 0
INVARIANTS EncodingMeansContent
CHECK_DEADLOCK FALSE
