---- MODULE RunGenSketch ----
EXTENDS Gen_Sketch
RSlots == 1..2
RTokens == {10, 11, 12, 13, 14, 15, -10, -11, -12, -13, -14, -15, 0, -1, 2, -2, 3, -3}
RWeights == {1, 2, 4, 8, 12}
RFactors == {<<2, 1>>}
ROps == {"Add", "AddW", "Merge", "Copy", "Clear", "EncDec", "DecodeNew", "Proto"}
RInit == (1 :> NewSketch("exact", 1, "exact", 0, "exact", 0)) @@ (2 :> NewSketch("exact", 1, "exact", 0, "exact", 0))
====
