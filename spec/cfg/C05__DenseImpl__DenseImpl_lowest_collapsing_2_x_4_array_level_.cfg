\* C05 quick: DenseImpl lowest-collapsing 2 x 4 (array level)
\* run by hand:  cd spec && tlc -workers 8 DenseImpl.tla -config cfg/C05__DenseImpl__DenseImpl_lowest_collapsing_2_x_4_array_level_.cfg
SPECIFICATION Spec
CONSTANTS
  Overhead = 2
  FixF3 = TRUE
  Slots = {1, 2}
  Keys <- DKeysSmall
  Weights = {1}
  InitKinds <- IK_Low2Low4
  MaxTotal = 3
CONSTRAINT BoundedC
INVARIANTS I_NoPanic I_Refines I_Structure I_KeyAtRank
CHECK_DEADLOCK FALSE
