---- MODULE RunMCSketch ----
EXTENDS MC_Sketch
RSlots == 1..2
RTokens == {10, -11, 0, 5000}
RWeights == {0, 4}
RFactors == {<<1, 2>>, <<2, 1>>}
ROps == {"AddW", "Merge", "Copy", "Clear", "Reweight", "EncDec", "DecodeNew"}
RInit == (1 :> NewSketch("exact", 1, "exact", 0, "exact", 0)) @@ (2 :> NewSketch("exact", 1, "exact", 0, "exact", 0))
====
