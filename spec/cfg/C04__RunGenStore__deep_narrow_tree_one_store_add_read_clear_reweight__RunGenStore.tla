---- MODULE RunGenStore ----
EXTENDS Gen_Store
RSlots == 1..1
RKeys == {1, 3}
RWeights == {6}
RRepeats == {33}
RFactors == {<<1, 2>>}
ROps == {"Add", "Read", "Clear", "Reweight"}
RInit == (1 :> NewStore("exact", 0))
RSlotKeys == (1 :> {1, 3})
RAsc == {}
RDesc == {}
RPairs == {}
====
