---- MODULE RunMCStore ----
EXTENDS MC_Store
RSlots == 1..2
RInit == (1 :> NewStore("high", 3)) @@ (2 :> NewStore("high", 1))
====
