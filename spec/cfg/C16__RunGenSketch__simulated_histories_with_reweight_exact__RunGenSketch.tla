---- MODULE RunGenSketch ----
EXTENDS Gen_Sketch
RSlots == 1..3
RTokens == {10, 11, 12, 13, 14, 15, -10, -11, -12, -13, -14, -15, 0, 2}
RWeights == {1, 4, 4, 8, 132, 280}
RFactors == {<<1, 4>>, <<1, 2>>, <<2, 1>>, <<3, 1>>, <<1, 1>>}
ROps == {"Add", "AddW", "AddN", "Reweight", "Merge", "Copy"}
RInit == (1 :> NewSketch("exact", 1, "low", 2, "low", 3)) @@ (2 :> NewSketch("exact", 1, "exact", 0, "exact", 0)) @@ (3 :> NewSketch("exact", 1, "high", 2, "high", 2))
====
