\* C20 quick: exhaustive tree of add/merge/query
\* run by hand:  cd spec && tlc -workers 8 Gen_Dataset.tla -config cfg/C20__Gen_Dataset__exhaustive_tree_of_add_merge_query.cfg
INIT GenInit
NEXT GenNext
CONSTANTS
  Sets = {1, 2}
  Values <- DValuesSmall
  QDen = 8
  MaxLen = 6
  Ops = {"Add", "Merge", "Query"}
  Depth = 4
  Lazy = FALSE
INVARIANT Emit
CHECK_DEADLOCK FALSE
