\* C04 quick: simulated long histories
\* run by hand:  cd spec && tlc -workers 8 RunGenStore.tla -config cfg/C04__RunGenStore__simulated_long_histories.cfg -simulate num=750 -depth 17 -seed 1   (root module generated by the harness: see the .tla file next to this one; copy it to spec/ first)
INIT GenInit
NEXT GenNext
CONSTANTS
  Slots <- RSlots
  Keys <- RKeys
  Q = 4
  Weights <- RWeights
  Repeats <- RRepeats
  Factors <- RFactors
  Ops <- ROps
  InitStores <- RInit
  Depth = 16
  EndMarker = TRUE
  SlotKeys <- RSlotKeys
  Asc <- RAsc
  Desc <- RDesc
  Pairs <- RPairs
INVARIANT Emit
CHECK_DEADLOCK FALSE
