---- MODULE RunMCSketch ----
EXTENDS MC_Sketch
RSlots == 1..2
RTokens == {10, -11, 0}
RWeights == {2}
RFactors == {<<2, 1>>}
ROps == {"Add", "Merge", "Clear", "EncDec", "Reweight"}
RInit == (1 :> NewSketch("exact", 1, "exact", 0, "exact", 0)) @@ (2 :> NewSketch("exact", 1, "exact", 0, "exact", 0))
====
