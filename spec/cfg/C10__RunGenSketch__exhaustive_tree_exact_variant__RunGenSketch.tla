---- MODULE RunGenSketch ----
EXTENDS Gen_Sketch
RSlots == 1..2
RTokens == {11, -12, 2, 5001}
RWeights == {0, 6}
RFactors == {<<1, 2>>}
ROps == {"AddW", "Merge", "Copy", "Clear", "Reweight", "EncDec", "DecodeNew"}
RInit == (1 :> NewSketch("exact", 1, "exact", 0, "exact", 0)) @@ (2 :> NewSketch("exact", 1, "exact", 0, "exact", 0))
====
