---- MODULE RunMCSketch ----
EXTENDS MC_Sketch
RSlots == 1..1
RTokens == {10, -11, 0}
RWeights == {2, 4}
RFactors == {<<1, 2>>, <<2, 1>>, <<3, 1>>, <<1, 1>>}
ROps == {"AddW", "Reweight"}
RInit == (1 :> NewSketch("exact", 1, "exact", 0, "exact", 0))
====
