\* C19 quick: mapping identity
\* run by hand:  cd spec && tlc -workers 8 MappingId.tla -config cfg/C19__MappingId__mapping_identity.cfg
SPECIFICATION Spec
CONSTANTS
  Kinds <- AllKinds
  GammaToks = {1, 2, 3, 4, 5, 6}
  OffsetToks = {1, 2, 3, 4, 5}
INVARIANTS M_RoundTrip M_Injective M_Equality Emit
CHECK_DEADLOCK FALSE
