---- MODULE RunMCSketch ----
EXTENDS MC_Sketch
RSlots == 1..2
RTokens == {10, 12, 14, -10, -12, -14, 0}
RWeights == {4}
RFactors == {<<2, 1>>}
ROps == {"Add", "Merge", "Clear"}
RInit == (1 :> NewSketch("plain", 1, "low", 2, "high", 2)) @@ (2 :> NewSketch("plain", 1, "exact", 0, "exact", 0))
====
