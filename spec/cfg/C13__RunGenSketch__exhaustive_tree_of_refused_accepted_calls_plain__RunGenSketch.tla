---- MODULE RunGenSketch ----
EXTENDS Gen_Sketch
RSlots == 1..2
RTokens == {10, -13, 0, -1, 2, 1000, -1000, 5000, 5001, -5001, 5002, -5002, 5003, -5003}
RWeights == {-1, 0, 4}
RFactors == {<<0, 1>>, <<-1, 1>>, <<1, 1>>, <<2, 1>>}
ROps == {"AddW", "Merge", "Reweight"}
RInit == (1 :> NewSketch("plain", 1, "exact", 0, "exact", 0)) @@ (2 :> NewSketch("plain", 2, "exact", 0, "exact", 0))
====
