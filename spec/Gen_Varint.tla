----------------------------- MODULE Gen_Varint -----------------------------
(***************************************************************************)
(* Vectors for C18: (a) for every word of the corpus the encodings the     *)
(* specification assigns to it, (b) for every byte string of the state     *)
(* space what the decoders must return.  Each vector is one implementation *)
(* test of the real codecs (and of the harness's own wirefmt primitives).  *)
(* Trace mode (direction B): words and floats drawn in Go with the bytes   *)
(* the REAL encoders produced are validated against the specification.     *)
(***************************************************************************)
EXTENDS Varint, Json

BitsSeq(w) == [i \in 1..64 |-> w[i - 1]]

WordVec(w) ==
  [kind |-> "word", bits |-> BitsSeq(w),
   encU |-> EncU(w), encS |-> EncS(w), encVF |-> EncVF(w),
   sizeU |-> SizeU(w), sizeS |-> SizeS(w), sizeVF |-> SizeVF(w),
   fits32 |-> FitsInt32(w)]

EmitCorpus == (input = <<>>) => \A w \in Corpus : PrintT(<<"BEH", ToJson(WordVec(w))>>)

StrVec ==
  LET ru == DecU(input)
      rs == DecS(input)
      rf == DecVF(input)
  IN [kind |-> "string", input |-> input,
      okU |-> ru[1], valU |-> BitsSeq(ru[2]), usedU |-> ru[3],
      valS |-> BitsSeq(rs[2]), fits32 |-> FitsInt32(rs[2]),
      okF |-> rf[1], valF |-> BitsSeq(rf[2]), usedF |-> rf[3]]

EmitStrings == PrintT(<<"BEH", ToJson(StrVec)>>)

=============================================================================
