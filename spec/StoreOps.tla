------------------------------ MODULE StoreOps ------------------------------
(***************************************************************************)
(* Pure next-state functions of the bin stores (no variables): shared by   *)
(* Store.tla (store-level histories) and Sketch.tla (a sketch owns two     *)
(* stores).  See Store.tla for the explanation of the operational          *)
(* collapsing semantics.                                                   *)
(***************************************************************************)
EXTENDS IndexMap

(***************************************************************************)
(* A store: kind in {"exact","low","high"}, n = maxNumBins (0 for exact),  *)
(* bins = index map, collapsed = the sticky isCollapsed flag.              *)
(***************************************************************************)
Fresh(s) == [kind |-> s.kind, n |-> s.n, bins |-> EmptyMap, collapsed |-> FALSE]
NewStore(kind, n) == [kind |-> kind, n |-> n, bins |-> EmptyMap, collapsed |-> FALSE]

IMin(a, b) == IF a < b THEN a ELSE b
IMax(a, b) == IF a > b THEN a ELSE b

-----------------------------------------------------------------------------
(* AddWithCount, as normalize()/extendRange()/adjust() do it *)

AddExact(s, i, w) == [s EXCEPT !.bins = Put(s.bins, i, w)]

AddLow(s, i, w) ==
  IF w = 0 THEN s
  ELSE IF IsEmptyMap(s.bins) THEN [s EXCEPT !.bins = Put(EmptyMap, i, w)]
  ELSE LET mn == MinI(s.bins)
           mx == MaxI(s.bins)
       IN IF i < mn THEN
               IF s.collapsed THEN [s EXCEPT !.bins = Put(s.bins, mn, w)]
               ELSE IF mx - i + 1 > s.n
                    THEN [s EXCEPT !.bins = Put(s.bins, mx - s.n + 1, w), !.collapsed = TRUE]
                    ELSE [s EXCEPT !.bins = Put(s.bins, i, w)]
          ELSE IF i > mx THEN
               IF i - mn + 1 > s.n
               THEN [s EXCEPT !.bins = Put(FoldBelow(s.bins, i - s.n + 1), i, w), !.collapsed = TRUE]
               ELSE [s EXCEPT !.bins = Put(s.bins, i, w)]
          ELSE [s EXCEPT !.bins = Put(s.bins, i, w)]

AddHigh(s, i, w) ==
  IF w = 0 THEN s
  ELSE IF IsEmptyMap(s.bins) THEN [s EXCEPT !.bins = Put(EmptyMap, i, w)]
  ELSE LET mn == MinI(s.bins)
           mx == MaxI(s.bins)
       IN IF i > mx THEN
               IF s.collapsed THEN [s EXCEPT !.bins = Put(s.bins, mx, w)]
               ELSE IF i - mn + 1 > s.n
                    THEN [s EXCEPT !.bins = Put(s.bins, mn + s.n - 1, w), !.collapsed = TRUE]
                    ELSE [s EXCEPT !.bins = Put(s.bins, i, w)]
          ELSE IF i < mn THEN
               IF mx - i + 1 > s.n
               THEN [s EXCEPT !.bins = Put(FoldAbove(s.bins, i + s.n - 1), i, w), !.collapsed = TRUE]
               ELSE [s EXCEPT !.bins = Put(s.bins, i, w)]
          ELSE [s EXCEPT !.bins = Put(s.bins, i, w)]

ApplyAdd(s, i, w) ==
  CASE s.kind = "exact" -> AddExact(s, i, w)
    [] s.kind = "low"   -> AddLow(s, i, w)
    [] s.kind = "high"  -> AddHigh(s, i, w)

\* adds of the bins of map b one after the other, in the order of sequence ord
RECURSIVE AddSeq(_, _, _)
AddSeq(s, b, ord) ==
  IF ord = <<>> THEN s
  ELSE AddSeq(ApplyAdd(s, Head(ord), b[Head(ord)]), b, Tail(ord))

\* the generic MergeWith: other.ForEach(AddWithCount) (ascending order here;
\* S_MergeOrderIrrelevant shows the order does not matter)
MergeByAdds(s, b) == AddSeq(s, b, SortedSeq(DOMAIN b))

(***************************************************************************)
(* Same-kind fast path of the collapsing stores: extendRange(o.min,o.max), *)
(* then o's bins outside the window go to the edge bin.  (This describes   *)
(* the repaired extendRange: an empty receiver narrower than the argument  *)
(* clamps the range instead of indexing out of bounds - finding F3.)       *)
(***************************************************************************)
MergeLowFast(s, ob) ==
  IF IsEmptyMap(ob) THEN s
  ELSE LET em   == IsEmptyMap(s.bins)
           nm   == IF em THEN MinI(ob) ELSE IMin(MinI(ob), MinI(s.bins))
           nx   == IF em THEN MaxI(ob) ELSE IMax(MaxI(ob), MaxI(s.bins))
           coll == nx - nm + 1 > s.n
           e    == nx - s.n + 1
           base == IF coll THEN FoldBelow(s.bins, e) ELSE s.bins
           wmin == IF coll THEN e ELSE nm
       IN [s EXCEPT !.bins = MergeM(base, FoldBelow(ob, wmin)),
                    !.collapsed = s.collapsed \/ coll]

MergeHighFast(s, ob) ==
  IF IsEmptyMap(ob) THEN s
  ELSE LET em   == IsEmptyMap(s.bins)
           nm   == IF em THEN MinI(ob) ELSE IMin(MinI(ob), MinI(s.bins))
           nx   == IF em THEN MaxI(ob) ELSE IMax(MaxI(ob), MaxI(s.bins))
           coll == nx - nm + 1 > s.n
           e    == nm + s.n - 1
           base == IF coll THEN FoldAbove(s.bins, e) ELSE s.bins
           wmax == IF coll THEN e ELSE nx
       IN [s EXCEPT !.bins = MergeM(base, FoldAbove(ob, wmax)),
                    !.collapsed = s.collapsed \/ coll]

ApplyMerge(s, o) ==
  CASE s.kind = "low"  /\ o.kind = "low"  -> MergeLowFast(s, o.bins)
    [] s.kind = "high" /\ o.kind = "high" -> MergeHighFast(s, o.bins)
    [] OTHER -> MergeByAdds(s, o.bins)

ApplyReweight(s, num, den) == [s EXCEPT !.bins = ScaleM(s.bins, num, den)]


FoldOf(kind, n, b) ==
  CASE kind = "exact" -> b
    [] kind = "low"   -> FoldLow(b, n)
    [] kind = "high"  -> FoldHigh(b, n)

=============================================================================
