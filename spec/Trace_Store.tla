----------------------------- MODULE Trace_Store -----------------------------
(***************************************************************************)
(* Trace validation for Store.tla (conformance direction B).               *)
(*                                                                         *)
(* The Go driver runs long random histories on REAL stores (production     *)
(* size parameters: bin limits up to 2048, indexes in +-2^30, thousands of *)
(* calls) and writes one NDJSON line per public call, after it returned:   *)
(* the operation, its arguments and what the public API then reports for   *)
(* the receiver and for the argument.  This module replays the events      *)
(* through Store!ApplyEvent and requires every logged observation to equal *)
(* the specification's (invariant Match).  A trace file holds many traces  *)
(* separated by "reset" events.                                            *)
(***************************************************************************)
EXTENDS Store, Json, IOUtils

VARIABLE l

Trace == ndJsonDeserialize(IOEnv.VERIF_TRACE)

TSlots == 1..4

TraceInit ==
  /\ st = [o \in TSlots |-> NewStore("exact", 0)]
  /\ ledger = [o \in TSlots |-> EmptyMap]
  /\ last = NoEvent
  /\ l = 1

ToEv(e) == Ev(e.op, e.s, e.t, e.i, e.w, e.num, e.den)

TraceNext ==
  /\ l <= Len(Trace)
  /\ LET e == Trace[l] IN
       /\ IF e.op = "reset"
          THEN st' = [o \in TSlots |-> NewStore(e.kinds[o].kind, e.kinds[o].n)]
          ELSE /\ Enabled(st, [o \in TSlots |-> st[o].bins], ToEv(e))
               /\ st' = ApplyEvent(st, ToEv(e))
       /\ last' = IF e.op = "reset" THEN NoEvent ELSE ToEv(e)
  /\ l' = l + 1
  /\ UNCHANGED ledger

TraceSpec == TraceInit /\ [][TraceNext]_<<vars, l>>

\* a logged observation of one store agrees with the specification's store
ObsMatches(s, o) ==
  /\ o.empty = IsEmptyMap(s.bins)
  /\ o.total = Total(s.bins)
  /\ o.nbins = Cardinality(DOMAIN s.bins)
  /\ ~IsEmptyMap(s.bins) => (o.min = MinI(s.bins) /\ o.max = MaxI(s.bins))
  /\ o.full => o.bins = BinSeq(s.bins)
  /\ \A k \in 1..Len(o.bins) : Get(s.bins, o.bins[k][1]) = o.bins[k][2]
  /\ \A k \in 1..Len(o.kar) : KeyAtRank2(s.bins, o.kar[k][1]) = o.kar[k][2]

Match ==
  l > 1 =>
    LET e == Trace[l - 1] IN
      e.op # "reset" =>
        /\ ObsMatches(st[Receiver(ToEv(e))], e.obs)
        /\ e.t # 0 => ObsMatches(st[e.s], e.argobs)

\* C05: bounded stores never exceed their limit (also logged from the layout hook: allocated length)
Bounded ==
  \A o \in TSlots : st[o].kind # "exact" =>
     Span(st[o].bins) <= st[o].n /\ Cardinality(DOMAIN st[o].bins) <= st[o].n

LayoutOK ==
  l > 1 =>
    LET e == Trace[l - 1] IN
      (e.op # "reset" /\ st[Receiver(ToEv(e))].kind # "exact") => e.alloc <= st[Receiver(ToEv(e))].n
=============================================================================
