---------------------------- MODULE Trace_Sketch ----------------------------
(***************************************************************************)
(* Direction B at sketch level (C01, C02, C11): long executions of REAL    *)
(* sketches with production-size inputs (thousands of values over hundreds *)
(* of bins, generators of the repository's tests, all mappings and store   *)
(* kinds) recorded by the Go driver: every Add/AddWithCount/Merge/Clear/   *)
(* Reweight/Copy and merge through the wire (Encode + DecodeAndMergeWith), *)
(* and quantile queries at EVERY k/(n-1), at both sides of every bin       *)
(* boundary, and both float64 neighbours.  A query line carries floor and ceil of the exact rank      *)
(* q*(W-1) (computed with math/big from the float q actually passed and    *)
(* the count the sketch reports) and `near`: the tokens of that sketch's   *)
(* input that the returned value is an alpha-accurate estimate of (a       *)
(* numeric fact about the answer, not a judgement).  This module replays   *)
(* the events through Sketch!ApplyEvent and requires near to meet the set  *)
(* the property allows in the specification's own bag.                     *)
(***************************************************************************)
EXTENDS Sketch, Json, IOUtils

VARIABLE l

Trace == ndJsonDeserialize(IOEnv.VERIF_TRACE)
TSlots == 1..3
FreshAll == [i \in TSlots |-> NewSketch("plain", 1, "exact", 0, "exact", 0)]

TraceInit == sk = FreshAll /\ last = NoEvent /\ err = "" /\ l = 1

ToEv(e) == Ev(e.op, e.s, e.t, e.v, e.w, e.num, e.den)

TraceNext ==
  /\ l <= Len(Trace)
  /\ LET e == Trace[l] IN
       /\ sk' = IF e.op = "reset" THEN FreshAll
                ELSE IF e.op = "Q" THEN sk
                ELSE ApplyEvent(sk, ToEv(e))
       /\ last' = IF e.op \in {"reset", "Q"} THEN NoEvent ELSE ToEv(e)
       /\ err' = ""
  /\ l' = l + 1

\* tokens of bag b whose cumulative interval (in the order of counted values) is within one unit of weight of
\* the rank interval [fl, ce] (quanta): C11; with unit weights and fl, ce multiples of Q this is the bin of
\* the order statistic of rank floor or ceil, C01
AllowedAtRank(b, fl, ce) ==
  LET tb  == CBag(b)
      idx == SortedSeq(DOMAIN tb)
      cs  == CumSeq(tb)
      n   == Len(idx)
      before(k) == IF k = 1 THEN 0 ELSE cs[k - 1]
      ok(k) == before(k) - Q <= ce /\ fl <= cs[k] + Q
      strict(k) == (before(k) <= fl /\ fl < cs[k]) \/ (before(k) <= ce /\ ce < cs[k])
      K == IF UnitWeights(tb) /\ fl % Q = 0 /\ ce % Q = 0 THEN {k \in 1..n : strict(k)} ELSE {k \in 1..n : ok(k)}
      X == {idx[k] : k \in K}
  IN {v \in DOMAIN b : CV(v) \in X}

QueryOK ==
  l > 1 =>
    LET e == Trace[l - 1] IN
      e.op = "Q" =>
        LET s == sk[e.s] IN
          /\ e.count = Count(s)                                    \* the count the real sketch reports
          /\ Count(s) = Total(s.bag)
          /\ 0 <= e.fl /\ e.fl <= e.ce /\ e.ce <= e.fl + Q /\ e.ce <= IMax(Count(s) - Q, 0)
          /\ \E k \in 1..Len(e.near) : e.near[k] \in AllowedAtRank(s.bag, e.fl, e.ce)

\* after a merge the receiver's count is the sum (C02) - the bins themselves are compared by Trace_Store at store level
CountOK ==
  l > 1 =>
    LET e == Trace[l - 1] IN
      (e.op \notin {"reset", "Q"}) => e.cnt = Count(sk[Receiver(ToEv(e))])
=============================================================================
