----------------------------- MODULE PagedImpl -----------------------------
(***************************************************************************)
(* Implementation-shaped model of BufferedPaginatedStore                   *)
(* (buffered_paginated.go): the buffer of unit entries with its capacity   *)
(* and compaction trigger, the slice of pages with minPageIndex, page(),   *)
(* compact(), Add, AddWithCount, Clear, Copy, Reweight, the same-kind and  *)
(* the fallback MergeWith, Encode and DecodeAndMergeWith of a paginated    *)
(* store's own encoding (batched index-delta decode, page-aligned          *)
(* contiguous blocks), and the reads that sort the buffer in place.        *)
(*                                                                         *)
(* TLC checks that it refines the exact index->weight map (P_Refines) for  *)
(* every history, every nondeterministic growth of the buffer's capacity   *)
(* (Go's append policy is not part of the contract) and every interleaving *)
(* of reads, plus the structural invariants the code relies on.            *)
(* Trace_Paged.tla validates the layout recorded from the real store       *)
(* (buffer length and capacity, compaction trigger, length of the page     *)
(* slice, allocated pages, minPageIndex) with the real constants           *)
(* (page length 32, page-slice growth 8).                                  *)
(***************************************************************************)
EXTENDS IndexMap, TLC

CONSTANTS PageLen,    \* 1 << pageLenLog2 (32 in the code)
          PageGrow,   \* growth increment of the page slice (8 on 64-bit)
          Unit        \* quanta of the weight 1 (entries of the buffer weigh one unit each)

UNUSED == 2000000000   \* minPageIndex == maxInt: pages are unused (they may still be allocated)

Zeros(n) == [k \in 1..n |-> 0]
NilPages(n) == [k \in 1..n |-> <<>>]

NewPaged ==
  [buf |-> <<>>, cap |-> 4, trig |-> 2 * PageLen, pages |-> <<>>, minPage |-> UNUSED]

PageIndex(i) == i \div PageLen          \* index >> pageLenLog2 (floors, also for negative indexes)
LineIndex(i) == i % PageLen             \* index & pageLenMask
IndexOf(pi, li) == pi * PageLen + li

NewPagesLen(required) == ((required + PageGrow - 1) \div PageGrow) * PageGrow

InWindow(p, pi) == p.minPage # UNUSED /\ pi >= p.minPage /\ pi < p.minPage + Len(p.pages)
Allocated(p, pi) == InWindow(p, pi) /\ p.pages[pi - p.minPage + 1] # <<>>

\* page(pageIndex, ensureExists): returns the store (possibly extended) ; the page is p'.pages[pi - p'.minPage + 1]
EnsurePage(p, pi) ==
  LET p1 == IF InWindow(p, pi) THEN p
            ELSE IF p.minPage = UNUSED THEN
                   LET pg == IF Len(p.pages) = 0 THEN NilPages(NewPagesLen(1)) ELSE p.pages
                   IN [p EXCEPT !.pages = pg, !.minPage = pi - Len(pg) \div 2]
            ELSE IF pi < p.minPage THEN
                   LET newLen == NewPagesLen(p.minPage - pi + 1 + Len(p.pages))
                       added  == newLen - Len(p.pages)
                   IN [p EXCEPT !.pages = NilPages(added) \o p.pages, !.minPage = p.minPage - added]
            ELSE [p EXCEPT !.pages = p.pages \o NilPages(NewPagesLen(pi - p.minPage + 1) - Len(p.pages))]
      slot == pi - p1.minPage + 1
  IN IF p1.pages[slot] = <<>> THEN [p1 EXCEPT !.pages[slot] = Zeros(PageLen)] ELSE p1

AddToPage(p, i, w) ==
  LET p1 == EnsurePage(p, PageIndex(i))
      slot == PageIndex(i) - p1.minPage + 1
  IN [p1 EXCEPT !.pages[slot][LineIndex(i) + 1] = p1.pages[slot][LineIndex(i) + 1] + w]

\* sort.Ints(buffer)
RECURSIVE InsertS(_, _)
InsertS(s, x) == IF s = <<>> THEN <<x>> ELSE IF x <= Head(s) THEN <<x>> \o s ELSE <<Head(s)>> \o InsertS(Tail(s), x)
RECURSIVE SortS(_)
SortS(s) == IF s = <<>> THEN <<>> ELSE InsertS(SortS(Tail(s)), Head(s))

SortBuffer(p) == [p EXCEPT !.buf = SortS(p.buf)]

(***************************************************************************)
(* compact(): sort the buffer; for every run of buffered indexes of one    *)
(* page, move them to the page if it exists or if the run is long enough   *)
(* to pay for a new page (run*entrySize >= pageLen*8 bytes, i.e. run >=    *)
(* PageLen with 64-bit ints); then trigger = len(buffer) + pageLen.        *)
(***************************************************************************)
RECURSIVE CompactFrom(_, _)
CompactFrom(p, pos) ==      \* pos: 1-based position in p.buf
  IF pos > Len(p.buf) THEN p
  ELSE LET pi   == PageIndex(p.buf[pos])
           run  == CHOOSE n \in 1..(Len(p.buf) - pos + 1) :
                     /\ \A k \in 0..(n - 1) : PageIndex(p.buf[pos + k]) = pi
                     /\ (pos + n > Len(p.buf) \/ PageIndex(p.buf[pos + n]) # pi)
           ens  == run >= PageLen
       IN IF ens \/ Allocated(p, pi)
          THEN LET p1 == EnsurePage(p, pi)
                   slot == pi - p1.minPage + 1
                   cnt(li) == Cardinality({k \in 0..(run - 1) : LineIndex(p.buf[pos + k]) = li})
                   pg == [li \in 1..PageLen |-> p1.pages[slot][li] + Unit * cnt(li - 1)]
                   nb == SubSeq(p.buf, 1, pos - 1) \o SubSeq(p.buf, pos + run, Len(p.buf))
               IN CompactFrom([p1 EXCEPT !.pages[slot] = pg, !.buf = nb], pos)
          ELSE CompactFrom(p, pos + run)

Compact(p) ==
  LET p1 == CompactFrom(SortBuffer(p), 1)
  IN [p1 EXCEPT !.trig = Len(p1.buf) + PageLen]

(***************************************************************************)
(* Environment model: the capacity Go's append() gives a full []int        *)
(* (runtime.growslice: nextslicecap, then rounded up to a malloc size      *)
(* class, 8-byte elements).  The store's behaviour depends on cap(buffer)  *)
(* (compaction condition of Add, batch size of the index-delta decode), so *)
(* following a recorded execution through calls that append many entries   *)
(* needs it.  It is NOT part of the store's contract: the model-checked    *)
(* state machine below lets the environment choose any capacity, and only  *)
(* Trace_Paged uses GoCap (and checks it against every logged capacity).   *)
(***************************************************************************)
SizeClasses == <<8, 16, 24, 32, 48, 64, 80, 96, 112, 128, 144, 160, 176, 192, 208, 224, 240, 256, 288, 320, 352, 384, 416,
                 448, 480, 512, 576, 640, 704, 768, 896, 1024, 1152, 1280, 1408, 1536, 1792, 2048, 2304, 2688, 3072, 3200,
                 3456, 4096, 4864, 5376, 6144, 6528, 6784, 6912, 8192, 9472, 9728, 10240, 10880, 12288, 13568, 14336,
                 16384, 18432, 19072, 20480, 21760, 24576, 27264, 28672, 32768>>
RoundUpSize(bytes) ==
  IF bytes <= 32768 THEN SizeClasses[CHOOSE k \in 1..Len(SizeClasses) :
                                       SizeClasses[k] >= bytes /\ (k = 1 \/ SizeClasses[k - 1] < bytes)]
  ELSE ((bytes + 8191) \div 8192) * 8192
RECURSIVE GrowLarge(_, _)
GrowLarge(c, newLen) == LET c1 == c + (c + 768) \div 4 IN IF c1 >= newLen THEN c1 ELSE GrowLarge(c1, newLen)
NextSliceCap(newLen, oldCap) ==
  IF newLen > 2 * oldCap THEN newLen ELSE IF oldCap < 256 THEN 2 * oldCap ELSE GrowLarge(oldCap, newLen)
GoCap(oldCap, newLen) == RoundUpSize(NextSliceCap(newLen, oldCap) * 8) \div 8

GO == -1     \* capacity policy "as Go's runtime does" (any positive value = the environment's choice for this append)

\* buffer = append(buffer, i)
AppendBuf(p, i, newCap) ==
  [p EXCEPT !.buf = Append(p.buf, i),
            !.cap = IF Len(p.buf) < p.cap THEN p.cap
                    ELSE IF newCap = GO THEN GoCap(p.cap, Len(p.buf) + 1)
                    ELSE IF newCap > Len(p.buf) THEN newCap ELSE 2 * Len(p.buf) + 2]

\* Add(index); newCap: the capacity append() chooses when the buffer is full (environment's choice, or GO)
ImplAdd1(p, i, unit, newCap) ==
  IF Allocated(p, PageIndex(i)) THEN AddToPage(p, i, unit)
  ELSE LET p1 == IF Len(p.buf) = p.cap /\ Len(p.buf) >= p.trig THEN Compact(p) ELSE p
       IN AppendBuf(p1, i, newCap)

\* AddWithCount(index, w) in quanta; unit == quanta of weight 1
ImplAddW(p, i, w, unit, newCap) ==
  IF w = 0 THEN p ELSE IF w = unit THEN ImplAdd1(p, i, unit, newCap) ELSE AddToPage(p, i, w)

ImplClear(p) == [p EXCEPT !.buf = <<>>, !.pages = [k \in 1..Len(p.pages) |-> <<>>], !.minPage = UNUSED]

\* Copy(): the copied buffer is allocated with capacity = length
ImplCopy(p) == [p EXCEPT !.cap = Len(p.buf)]

\* Reweight(num/den) with weights in quanta of 1/den units... here: every quantum scaled by num/den (den divides)
ImplReweight(p, num, den, unit) ==
  LET scaled == [p EXCEPT !.buf = <<>>,
                          !.pages = [k \in 1..Len(p.pages) |-> IF p.pages[k] = <<>> THEN <<>> ELSE [li \in 1..PageLen |-> (p.pages[k][li] * num) \div den]]]
      F[k \in 0..Len(p.buf)] == IF k = 0 THEN scaled ELSE AddToPage(F[k - 1], p.buf[k], (unit * num) \div den)
  IN F[Len(p.buf)]

\* every allocated page of o added cell by cell into p's page of the same page index (created if needed), ascending
MergePages(p, o) ==
  LET slots == {k \in 1..Len(o.pages) : o.pages[k] # <<>>}
      ord   == SortedSeq(slots)
      P[k \in 0..Len(ord)] ==
        IF k = 0 THEN p
        ELSE LET pi == o.minPage + ord[k] - 1
                 q  == EnsurePage(P[k - 1], pi)
                 sl == pi - q.minPage + 1
             IN [q EXCEPT !.pages[sl] = [li \in 1..PageLen |-> q.pages[sl][li] + o.pages[ord[k]][li]]]
  IN P[Len(ord)]

\* MergeWith(o) of two paginated stores: pages first, then the buffered indexes one by one through Add
ImplMergeSame(p, o, unit, newCap) ==
  LET B[k \in 0..Len(o.buf)] == IF k = 0 THEN MergePages(p, o) ELSE ImplAdd1(B[k - 1], o.buf[k], unit, newCap)
  IN B[Len(o.buf)]

\* fallback MergeWith(other kind): other.ForEach(AddWithCount) - `bins` is the argument's content, visited in ascending order
ImplMergeBins(p, bins, unit, newCap) ==
  LET ord == SortedSeq(DOMAIN bins)
      B[k \in 0..Len(ord)] == IF k = 0 THEN p ELSE ImplAddW(B[k - 1], ord[k], bins[ord[k]], unit, newCap)
  IN B[Len(ord)]

(***************************************************************************)
(* DecodeAndMergeWith of what Encode() of a paginated store writes:        *)
(* Encode compacts the source, writes its buffer as ONE index-delta block, *)
(* then every allocated page as a contiguous-counts block (page-aligned,   *)
(* stride 1, PageLen counts).  The index-delta decoder appends RAW to the  *)
(* buffer (also indexes whose page exists), in batches of                  *)
(* min(remaining, max(cap, trigger) - len) with a compaction between       *)
(* batches; the contiguous decoder adds into the page, creating it.        *)
(***************************************************************************)
MaxI2(a, b) == IF a > b THEN a ELSE b
MinI2(a, b) == IF a < b THEN a ELSE b

RECURSIVE DecodeDeltas(_, _, _)
DecodeDeltas(p, rest, newCap) ==
  LET batch == MinI2(Len(rest), MaxI2(p.cap, p.trig) - Len(p.buf))
      A[k \in 0..batch] == IF k = 0 THEN p ELSE AppendBuf(A[k - 1], rest[k], newCap)
  IN IF batch = Len(rest) THEN A[batch]
     ELSE DecodeDeltas(Compact(A[batch]), SubSeq(rest, batch + 1, Len(rest)), newCap)

\* o is the source AFTER its Encode (compacted)
ImplDecodeSame(p, o, newCap) ==
  MergePages(IF o.buf = <<>> THEN p ELSE DecodeDeltas(p, o.buf, newCap), o)

\* abstraction: buffered unit entries plus page cells
AbsBins(p, unit) ==
  LET bufIdx == {p.buf[k] : k \in 1..Len(p.buf)}
      pgIdx  == {IndexOf(p.minPage + k - 1, li - 1) : k \in {j \in 1..Len(p.pages) : p.pages[j] # <<>>}, li \in 1..PageLen}
      cellOf(i) == IF Allocated(p, PageIndex(i)) THEN p.pages[PageIndex(i) - p.minPage + 1][LineIndex(i) + 1] ELSE 0
      bufOf(i)  == unit * Cardinality({k \in 1..Len(p.buf) : p.buf[k] = i})
      D == {i \in bufIdx \cup (IF p.minPage = UNUSED THEN {} ELSE pgIdx) : cellOf(i) + bufOf(i) > 0}
  IN [i \in D |-> cellOf(i) + bufOf(i)]

-----------------------------------------------------------------------------
(* State machine: implementation-shaped store `pg` and abstract map `am` take the same events *)
CONSTANTS Slots, Keys, WeightsW, MaxTotal

VARIABLES pg, am
vars == <<pg, am>>

Init == pg = [s \in Slots |-> NewPaged] /\ am = [s \in Slots |-> EmptyMap]

CapChoices(p) == {Len(p.buf) + 1, 2 * Len(p.buf) + 2}

AddEv(s, i, w) == \E nc \in CapChoices(pg[s]) :
                    /\ pg' = [pg EXCEPT ![s] = ImplAddW(pg[s], i, w, Unit, nc)]
                    /\ am' = [am EXCEPT ![s] = Put(am[s], i, w)]
ReadEv(s) == pg' = [pg EXCEPT ![s] = SortBuffer(pg[s])] /\ UNCHANGED am           \* KeyAtRank / ForEach / Bins / ToProto
EncodeEv(s) == pg' = [pg EXCEPT ![s] = Compact(pg[s])] /\ UNCHANGED am            \* Encode compacts
ClearEv(s) == pg' = [pg EXCEPT ![s] = ImplClear(pg[s])] /\ am' = [am EXCEPT ![s] = EmptyMap]
CopyEv(t, s) == t # s /\ pg' = [pg EXCEPT ![t] = ImplCopy(pg[s])] /\ am' = [am EXCEPT ![t] = am[s]]
MergeEv(t, s) == t # s /\ \E nc \in CapChoices(pg[t]) \cup {Len(pg[t].buf) + Len(pg[s].buf) + 1} :
                    /\ pg' = [pg EXCEPT ![t] = ImplMergeSame(pg[t], pg[s], Unit, nc)]
                    /\ am' = [am EXCEPT ![t] = MergeM(am[t], am[s])]
DecodeEv(t, s) == t # s /\ \E nc \in CapChoices(pg[t]) \cup {GO} :
                    LET src == Compact(pg[s]) IN
                    /\ pg' = [pg EXCEPT ![s] = src, ![t] = ImplDecodeSame(pg[t], src, nc)]
                    /\ am' = [am EXCEPT ![t] = MergeM(am[t], am[s])]
\* decode of the encoding of a small literal store (keeps the one-slot state space while reaching the batch boundaries
\* and the page blocks of the decoder): sources are built by unit adds of every key sequence of length 1..2 and two longer ones
SrcOf(q) == LET F[k \in 0..Len(q)] == IF k = 0 THEN NewPaged ELSE ImplAdd1(F[k - 1], q[k], Unit, GO) IN Compact(F[Len(q)])
LitSources ==
  LET k1 == CHOOSE x \in Keys : \A y \in Keys : x <= y
      k2 == CHOOSE x \in Keys : \A y \in Keys : x >= y
  IN {SrcOf(q) : q \in UNION {[1..n -> Keys] : n \in 1..2}}
       \cup {SrcOf(<<k1, k1, k2, k1, k2>>), SrcOf(<<k2, k1, k1, k1>>)}
DecodeLitEv(s) == Cardinality(Slots) = 1 /\ \E src \in LitSources, nc \in {GO, Len(pg[s].buf) + 1} :
                    /\ pg' = [pg EXCEPT ![s] = ImplDecodeSame(pg[s], src, nc)]
                    /\ am' = [am EXCEPT ![s] = MergeM(am[s], AbsBins(src, Unit))]
ReweightEv(s) == /\ Divisible(am[s], 1, 2) /\ Unit % 2 = 0
                 /\ pg' = [pg EXCEPT ![s] = ImplReweight(pg[s], 1, 2, Unit)]
                 /\ am' = [am EXCEPT ![s] = ScaleM(am[s], 1, 2)]

Next ==
  \/ \E s \in Slots, i \in Keys, w \in WeightsW : AddEv(s, i, w)
  \/ \E s \in Slots : ReadEv(s) \/ EncodeEv(s) \/ ClearEv(s) \/ ReweightEv(s) \/ DecodeLitEv(s)
  \/ \E s, t \in Slots : CopyEv(t, s) \/ MergeEv(t, s) \/ DecodeEv(t, s)

Spec == Init /\ [][Next]_vars

P_Refines == \A s \in Slots : AbsBins(pg[s], Unit) = am[s]

P_Structure ==
  \A s \in Slots :
    LET p == pg[s] IN
      /\ Len(p.buf) <= p.cap
      /\ p.minPage = UNUSED => \A k \in 1..Len(p.pages) : p.pages[k] = <<>>
      /\ Len(p.pages) % PageGrow = 0
      /\ \A k \in 1..Len(p.pages) : p.pages[k] = <<>> \/ Len(p.pages[k]) = PageLen
      /\ \A k \in 1..Len(p.pages) : p.pages[k] # <<>> => \A li \in 1..PageLen : p.pages[k][li] >= 0
      /\ p.trig >= PageLen

BoundedP == \A s \in Slots : Total(am[s]) <= MaxTotal /\ Len(pg[s].buf) <= MaxTotal

PKeys == -3..5
PKeysSmall == {-3, -2, 0, 1}
PKeys3 == {-3, -2, 1}
=============================================================================
