------------------------------ MODULE Dataset ------------------------------
(***************************************************************************)
(* The reference dataset helper (dataset/dataset.go), property C20.        *)
(* Implementation-shaped: a dataset keeps its values in arrival order,     *)
(* a count, and a lazy `sorted` flag; every query sorts IN PLACE first;    *)
(* Merge appends the other dataset's values in their current order.        *)
(* The ghost `bag` (value -> multiplicity) is the declarative meaning and  *)
(* TLC checks that the lazy-sort design refines it for every interleaving  *)
(* of Add, Merge and queries.  Values are integers standing for halves     *)
(* (v/2), so sums are exact; quantiles are a/QDen.                         *)
(***************************************************************************)
EXTENDS IndexMap, TLC

CONSTANTS Sets,      \* dataset slots
          Values,    \* values offered to Add
          QDen,
          MaxLen,    \* bound on the number of values per dataset
          Ops

VARIABLES ds, bag, last
vars == <<ds, bag, last>>

Ev(op, d, o, v) == [op |-> op, d |-> d, o |-> o, v |-> v]
NoEvent == Ev("Init", 0, 0, 0)

NewDS == [vals |-> <<>>, count |-> 0, sorted |-> FALSE]

\* sort.Float64s on the slice
RECURSIVE InsertSorted(_, _)
InsertSorted(s, x) ==
  IF s = <<>> THEN <<x>>
  ELSE IF x <= Head(s) THEN <<x>> \o s ELSE <<Head(s)>> \o InsertSorted(Tail(s), x)
RECURSIVE SortVals(_)
SortVals(s) == IF s = <<>> THEN <<>> ELSE InsertSorted(SortVals(Tail(s)), Head(s))

DoSort(d) == IF d.sorted THEN d ELSE [d EXCEPT !.vals = SortVals(d.vals), !.sorted = TRUE]

AddV(d, v) == [vals |-> Append(d.vals, v), count |-> d.count + 1, sorted |-> FALSE]

RECURSIVE AddAll(_, _)
AddAll(d, s) == IF s = <<>> THEN d ELSE AddAll(AddV(d, Head(s)), Tail(s))

\* rank = q*(count-1), q = a/QDen : floor and ceil with integer arithmetic
FloorRank(n, a) == (a * (n - 1)) \div QDen
CeilRank(n, a) == IF (a * (n - 1)) % QDen = 0 THEN FloorRank(n, a) ELSE FloorRank(n, a) + 1

\* answers as the code computes them (after sorting in place); "NaN" for empty
Lower(d, a) == IF d.count = 0 THEN "NaN" ELSE DoSort(d).vals[FloorRank(d.count, a) + 1]
Upper(d, a) == IF d.count = 0 THEN "NaN" ELSE DoSort(d).vals[CeilRank(d.count, a) + 1]

Events ==
  (IF "Add" \in Ops THEN {Ev("Add", d, 0, v) : d \in Sets, v \in Values} ELSE {}) \cup
  (IF "Merge" \in Ops THEN {Ev("Merge", d, o, 0) : d \in Sets, o \in Sets} ELSE {}) \cup
  (IF "Query" \in Ops THEN {Ev("Query", d, 0, 0) : d \in Sets} ELSE {})

ApplyEvent(D, e) ==
  CASE e.op = "Add"   -> [D EXCEPT ![e.d] = AddV(D[e.d], e.v)]
    [] e.op = "Merge" -> [D EXCEPT ![e.d] = AddAll(D[e.d], D[e.o].vals)]      \* d.Merge(o); o = d doubles d
    [] e.op = "Query" -> [D EXCEPT ![e.d] = DoSort(D[e.d])]                   \* any quantile/min/max query sorts in place

ApplyBag(B, e) ==
  CASE e.op = "Add"   -> [B EXCEPT ![e.d] = Put(B[e.d], e.v, 1)]
    [] e.op = "Merge" -> [B EXCEPT ![e.d] = MergeM(B[e.d], B[e.o])]
    [] e.op = "Query" -> B

Enabled(D, e) ==
  CASE e.op = "Add" -> D[e.d].count < MaxLen
    [] e.op = "Merge" -> D[e.d].count + D[e.o].count <= MaxLen
    [] OTHER -> TRUE

Init == ds = [d \in Sets |-> NewDS] /\ bag = [d \in Sets |-> EmptyMap] /\ last = NoEvent

Next == \E e \in Events : Enabled(ds, e) /\ ds' = ApplyEvent(ds, e) /\ bag' = ApplyBag(bag, e) /\ last' = e

Spec == Init /\ [][Next]_vars

-----------------------------------------------------------------------------
(* Declarative meaning: order statistics of the bag *)

\* value of rank r (0-based) in the sorted multiset
StatAt(b, r) == KeyAtRank2(b, 2 * r)

Obs(d) ==
  [count |-> d.count,
   min   |-> IF d.count = 0 THEN 0 ELSE DoSort(d).vals[1],
   max   |-> IF d.count = 0 THEN 0 ELSE DoSort(d).vals[d.count],
   sum   |-> FoldLeft(LAMBDA x, y : x + y, 0, d.vals),
   lower |-> IF d.count = 0 THEN <<>> ELSE [k \in 1..(QDen + 1) |-> Lower(d, k - 1)],
   upper |-> IF d.count = 0 THEN <<>> ELSE [k \in 1..(QDen + 1) |-> Upper(d, k - 1)]]

D_Refines ==
  \A d \in Sets :
    /\ ds[d].count = Total(bag[d])
    /\ Len(ds[d].vals) = ds[d].count
    /\ ds[d].sorted => \A i \in 1..(Len(ds[d].vals) - 1) : ds[d].vals[i] <= ds[d].vals[i + 1]
    /\ ds[d].count > 0 =>
         /\ \A a \in 0..QDen : /\ Lower(ds[d], a) = StatAt(bag[d], FloorRank(ds[d].count, a))
                               /\ Upper(ds[d], a) = StatAt(bag[d], CeilRank(ds[d].count, a))
                               /\ Lower(ds[d], a) <= Upper(ds[d], a)
         /\ Obs(ds[d]).min = MinI(bag[d])
         /\ Obs(ds[d]).max = MaxI(bag[d])
         /\ Obs(ds[d]).sum = FoldFunctionOnSet(+, 0, [v \in DOMAIN bag[d] |-> v * bag[d][v]], DOMAIN bag[d])

\* queries do not change the content; merging leaves the argument's content as it was
D_QueryKeepsBag == [][last'.op = "Query" => bag' = bag /\ \A d \in Sets : ds'[d].count = ds[d].count]_vars
D_MergeArg == [][(last'.op = "Merge" /\ last'.o # last'.d) => ds'[last'.o] = ds[last'.o]]_vars

View == <<ds, bag>>

\* value sets for configurations
DValues == {-2, 0, 1, 2, 4}
DValuesSmall == {-1, 0, 3}
=============================================================================
