------------------------------ MODULE Gen_Wire ------------------------------
(***************************************************************************)
(* Block alphabets for Wire.tla, and emission of every maximal stream with *)
(* the documented decoding result of EVERY prefix of complete blocks, for  *)
(* several decoder configurations.  The Go harness serialises the blocks   *)
(* with its own writer (written from the format documentation), cuts the   *)
(* bytes at every offset and runs the real decoders.                       *)
(***************************************************************************)
EXTENDS Wire, Json

GQ == 4

\* bins blocks for one side
BinBlocks(side) ==
  { IdcB(side, <<>>, <<>>),                       \* N = 0
    IdcB(side, <<1>>, <<4>>),
    IdcB(side, <<1, 0>>, <<4, 2>>),               \* repeated index
    IdcB(side, <<2, -3>>, <<2, 4>>),              \* negative delta
    IdcB(side, <<0, 40>>, <<4, 4>>),              \* large delta
    IdB(side, <<>>),
    IdB(side, <<1>>),
    IdB(side, <<1, 0>>),                          \* repeated index
    IdB(side, <<2, -1>>),
    CcB(side, 1, 1, <<>>),                        \* N = 0
    CcB(side, 0, 1, <<4, 2>>),
    CcB(side, 2, -1, <<4, 4>>),                   \* negative stride
    CcB(side, 1, 0, <<4, 4, 2>>),                 \* zero stride: the same index three times
    CcB(side, -1, 40, <<2, 4>>),                  \* large stride
    CcB(side, 0, 1, <<0, 4>>) }                   \* a zero count inside

AlphaFull ==
  {ZeroB(4), ZeroB(2), MapB(1), MapB(2)} \cup BinBlocks(1) \cup BinBlocks(-1)
  \cup {StatB("count", 8), StatB("sum", 1), StatB("min", 1), StatB("max", 1)}
  \cup {UnkB(1), UnkB(2), UnkB(3)}

\* smaller alphabet for longer streams
AlphaSmall ==
  {ZeroB(4), MapB(1), MapB(2),
   IdcB(1, <<1, 0>>, <<4, 2>>), IdcB(-1, <<2, -3>>, <<2, 4>>), IdB(1, <<2, -1>>), IdB(-1, <<1, 0>>),
   CcB(1, 2, -1, <<4, 4>>), CcB(-1, 1, 0, <<4, 4, 2>>), CcB(1, -1, 40, <<2, 4>>),
   StatB("count", 8), StatB("min", 1), UnkB(1)}

R(d) == [err |-> d.err, m |-> d.m, pos |-> BinSeq(d.pos.bins), neg |-> BinSeq(d.neg.bins), zero |-> d.zero, xcnt |-> d.xcnt]

PredAt(k) ==
  LET p == SubSeq(stream, 1, k) IN
  [k      |-> k,
   plain  |-> R(DecodePlain(DecInit(0, "exact", 0, "exact", 0), p)),      \* no mapping supplied
   plain1 |-> R(DecodePlain(DecInit(1, "exact", 0, "exact", 0), p)),      \* mapping 1 supplied / receiver with mapping 1
   fold   |-> R(DecodePlain(DecInit(0, "low", 2, "high", 2), p)),         \* bounded target stores
   exact  |-> R(DecodeExact(DecInit(0, "exact", 0, "exact", 0), p))]      \* exact-statistics decoder

Emit == (Len(stream) = MaxBlocks) =>
          PrintT(<<"BEH", ToJson([blocks |-> stream, preds |-> [k \in 1..(Len(stream) + 1) |-> PredAt(k - 1)]])>>)
=============================================================================
