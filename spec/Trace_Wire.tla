----------------------------- MODULE Trace_Wire -----------------------------
(***************************************************************************)
(* Producer side of C07/C06 (direction B): every line of the trace is a    *)
(* REAL encoding produced by Encode (any store kind, mapping kind, sketch  *)
(* variant), tokenised into blocks by the harness's independent tokenizer, *)
(* together with the content of the encoded sketch as reported by its      *)
(* public API.  The documented meaning of the blocks (Wire!DecodeExact)    *)
(* must be exactly that content.                                           *)
(***************************************************************************)
EXTENDS Wire, Json, IOUtils

VARIABLE l

Trace == ndJsonDeserialize(IOEnv.VERIF_TRACE)

TraceInit == stream = <<>> /\ l = 1

ToBlk(b) == Blk(b.t, b.side, b.layout, b.ix, b.cn, b.w, b.m)

TraceNext ==
  /\ l <= Len(Trace)
  /\ stream' = [k \in 1..Len(Trace[l].blocks) |-> ToBlk(Trace[l].blocks[k])]
  /\ l' = l + 1

EncodingMeansContent ==
  l > 1 =>
    LET e == Trace[l - 1]
        \* when the mapping was omitted the caller supplies it (token 1 = the source mapping)
        d == DecodeExact(DecInit(IF e.m = 0 THEN 1 ELSE 0, "exact", 0, "exact", 0), stream)
        plain == DecodePlain(DecInit(IF e.m = 0 THEN 1 ELSE 0, "exact", 0, "exact", 0), stream)
    IN /\ plain.err = ""
       /\ plain.m = 1                                  \* the embedded mapping is the source mapping, bit for bit
       /\ BinSeq(plain.pos.bins) = e.pos
       /\ BinSeq(plain.neg.bins) = e.neg
       /\ plain.zero = e.zero
       \* the encoding of the exact variant carries its count; a plain sketch's encoding carries none
       /\ d.xcnt = e.xcnt
       /\ e.xcnt > 0 => d.err = ""
=============================================================================
