----------------------------- MODULE DenseImpl -----------------------------
(***************************************************************************)
(* Implementation-shaped model of DenseStore, CollapsingLowestDenseStore   *)
(* and CollapsingHighestDenseStore (dense_store.go, collapsing_*.go): the  *)
(* growable array `bins`, `offset`, `minIndex`, `maxIndex`, `count`,       *)
(* `isCollapsed`, with normalize / extendRange / adjust / centerCounts /   *)
(* shiftCounts / resetBins transcribed statement by statement, including   *)
(* the slice-bounds checks of Go (a violated bound sets `panicked`).       *)
(*                                                                         *)
(* TLC checks that this refines the abstract stores of StoreOps (the same  *)
(* events are applied to both: I_Refines), the structural invariants the   *)
(* code relies on (cells outside [minIndex,maxIndex] are zero - what       *)
(* KeyAtRank, which scans the whole array, needs; count = sum; length <= N *)
(* for bounded stores; collapsed => offset = minIndex) and I_NoPanic.      *)
(* With the pre-repair extendRange (FixF3 = FALSE) TLC finds the F3 panic  *)
(* as a violation of I_NoPanic - the design defect at model level.         *)
(* Trace_Dense.tla validates the layout (array length, offset, min, max,   *)
(* collapsed flag) recorded from the real stores through the layout hook   *)
(* with the real constant (overhead 64).                                   *)
(***************************************************************************)
EXTENDS StoreOps, TLC

CONSTANTS Overhead,   \* arrayLengthOverhead (64 in the code; small in exhaustive runs)
          FixF3       \* TRUE: the repaired extendRange (empty receiver clamps the requested range)

BIG == 2000000000     \* stands for math.MaxInt32 / MinInt32 of an empty store

Zeros(n) == [k \in 1..n |-> 0]

NewDense(kind, n) ==
  [kind |-> kind, n |-> n, arr |-> <<>>, off |-> 0, mn |-> BIG, mx |-> -BIG, cnt |-> 0, coll |-> FALSE, panicked |-> FALSE]

Panic(d) == [d EXCEPT !.panicked = TRUE]
LenA(d) == Len(d.arr)
Cell(d, i) == d.arr[i - d.off + 1]            \* s.bins[i-s.offset]
InArr(d, i) == i - d.off >= 0 /\ i - d.off < LenA(d)

\* getNewLength: desiredLength + overhead - 1 (the 10% growth term truncates away), capped by maxNumBins
NewLength(d, a, b) ==
  LET base == (b - a + 1) + Overhead - 1
  IN IF d.kind = "exact" THEN base ELSE IMin(base, d.n)

\* resetBins(from, to): zero the cells of the indexes from..to
ResetBins(d, from, to) ==
  IF from > to THEN d
  ELSE IF ~InArr(d, from) \/ ~InArr(d, to) THEN Panic(d)
  ELSE [d EXCEPT !.arr = [k \in 1..LenA(d) |-> IF k - 1 + d.off >= from /\ k - 1 + d.off <= to THEN 0 ELSE d.arr[k]]]

\* shiftCounts(shift): copy(bins[minArr+shift:], bins[minArr:maxArr+1]); reset the vacated cells; offset -= shift
ShiftCounts(d, shift) ==
  LET minArr == d.mn - d.off
      maxArr == d.mx - d.off
      n      == LenA(d)
  IN IF minArr < 0 \/ maxArr + 1 > n \/ minArr > maxArr + 1 \/ minArr + shift < 0 \/ minArr + shift > n THEN Panic(d)
     ELSE LET cnt  == IMin(maxArr + 1 - minArr, n - (minArr + shift))      \* copy() copies min(len(dst), len(src)) cells
              arr2 == [k \in 1..n |-> IF k - 1 >= minArr + shift /\ k - 1 < minArr + shift + cnt
                                       THEN d.arr[k - shift] ELSE d.arr[k]]
              d2   == [d EXCEPT !.arr = arr2]
              d3   == IF shift > 0 THEN ResetBins(d2, d.mn, d.mn + shift - 1) ELSE ResetBins(d2, d.mx + shift + 1, d.mx)
          IN [d3 EXCEPT !.off = d.off - shift]

CenterCounts(d, a, b) ==
  LET mid == a + (b - a + 1) \div 2
      d2  == ShiftCounts(d, d.off + LenA(d) \div 2 - mid)
  IN [d2 EXCEPT !.mn = a, !.mx = b]

\* sum of the cells of indexes from..to (out of range reads panic in Go: reported through InArr by the callers)
RECURSIVE SumCells(_, _, _)
SumCells(d, from, to) == IF from > to THEN 0 ELSE Cell(d, from) + SumCells(d, from + 1, to)

AdjustLow(d, a0, b) ==
  IF b - a0 + 1 > LenA(d) THEN
    LET a == b - LenA(d) + 1 IN
    IF a >= d.mx THEN   \* only one non-empty bucket
      [d EXCEPT !.arr = [k \in 1..LenA(d) |-> IF k = 1 THEN d.cnt ELSE 0], !.off = a, !.mn = a, !.mx = b, !.coll = TRUE]
    ELSE
      LET shift == d.off - a IN
      IF shift < 0 THEN
        IF ~InArr(d, d.mn) \/ ~InArr(d, a - 1) \/ ~InArr(d, a) THEN Panic(d)
        ELSE LET n  == SumCells(d, d.mn, a - 1)
                 d2 == ResetBins(d, d.mn, a - 1)
                 d3 == [d2 EXCEPT !.arr[a - d.off + 1] = d2.arr[a - d.off + 1] + n, !.mn = a]
                 d4 == ShiftCounts(d3, shift)
             IN [d4 EXCEPT !.mx = b, !.coll = TRUE]
      ELSE LET d2 == ShiftCounts(d, shift) IN [d2 EXCEPT !.mn = a, !.mx = b, !.coll = TRUE]
  ELSE CenterCounts(d, a0, b)

AdjustHigh(d, a, b0) ==
  IF b0 - a + 1 > LenA(d) THEN
    LET b == a + LenA(d) - 1 IN
    IF b <= d.mn THEN
      [d EXCEPT !.arr = [k \in 1..LenA(d) |-> IF k = LenA(d) THEN d.cnt ELSE 0], !.off = a, !.mx = b, !.mn = a, !.coll = TRUE]
    ELSE
      LET shift == d.off - a IN
      IF shift > 0 THEN
        IF ~InArr(d, b + 1) \/ ~InArr(d, d.mx) \/ ~InArr(d, b) THEN Panic(d)
        ELSE LET n  == SumCells(d, b + 1, d.mx)
                 d2 == ResetBins(d, b + 1, d.mx)
                 d3 == [d2 EXCEPT !.arr[b - d.off + 1] = d2.arr[b - d.off + 1] + n, !.mx = b]
                 d4 == ShiftCounts(d3, shift)
             IN [d4 EXCEPT !.mn = a, !.coll = TRUE]
      ELSE LET d2 == ShiftCounts(d, shift) IN [d2 EXCEPT !.mx = b, !.mn = a, !.coll = TRUE]
  ELSE CenterCounts(d, a, b0)

Adjust(d, a, b) ==
  CASE d.kind = "exact" -> CenterCounts(d, a, b)
    [] d.kind = "low"   -> AdjustLow(d, a, b)
    [] d.kind = "high"  -> AdjustHigh(d, a, b)

ExtendRange(d, a0, b0) ==
  LET a == IMin(a0, d.mn)
      b == IMax(b0, d.mx)
  IN IF d.cnt = 0 THEN
       LET len0 == NewLength(d, a, b)
           wide == FixF3 /\ d.kind # "exact" /\ b - a + 1 > len0
           a1   == IF wide /\ d.kind = "low" THEN b - len0 + 1 ELSE a
           b1   == IF wide /\ d.kind = "high" THEN a + len0 - 1 ELSE b
           d1   == [d EXCEPT !.arr = Zeros(len0), !.off = a1, !.mn = a1, !.mx = b1, !.coll = d.coll \/ wide]
       IN Adjust(d1, a1, b1)
     ELSE IF a >= d.off /\ b < d.off + LenA(d) THEN [d EXCEPT !.mn = a, !.mx = b]
     ELSE LET nl == NewLength(d, a, b)
              d1 == IF nl > LenA(d) THEN [d EXCEPT !.arr = d.arr \o Zeros(nl - LenA(d))] ELSE d
          IN Adjust(d1, a, b)

\* normalize(index): <<store, array position>>
Normalize(d, i) ==
  CASE d.kind = "exact" ->
         LET d1 == IF i < d.mn \/ i > d.mx THEN ExtendRange(d, i, i) ELSE d IN <<d1, i - d1.off>>
    [] d.kind = "low" ->
         IF i < d.mn THEN
           IF d.coll THEN <<d, 0>>
           ELSE LET d1 == ExtendRange(d, i, i) IN IF d1.coll THEN <<d1, 0>> ELSE <<d1, i - d1.off>>
         ELSE LET d1 == IF i > d.mx THEN ExtendRange(d, i, i) ELSE d IN <<d1, i - d1.off>>
    [] d.kind = "high" ->
         IF i > d.mx THEN
           IF d.coll THEN <<d, LenA(d) - 1>>
           ELSE LET d1 == ExtendRange(d, i, i) IN IF d1.coll THEN <<d1, LenA(d1) - 1>> ELSE <<d1, i - d1.off>>
         ELSE LET d1 == IF i < d.mn THEN ExtendRange(d, i, i) ELSE d IN <<d1, i - d1.off>>

ImplAdd(d, i, w) ==
  IF w = 0 \/ d.panicked THEN d
  ELSE LET r  == Normalize(d, i)
           d1 == r[1]
           p  == r[2]
       IN IF d1.panicked THEN d1
          ELSE IF p < 0 \/ p >= LenA(d1) THEN Panic(d1)
          ELSE [d1 EXCEPT !.arr[p + 1] = d1.arr[p + 1] + w, !.cnt = d1.cnt + w]

\* the same-kind MergeWith fast paths (cell by cell)
RECURSIVE MergeCells(_, _, _, _)
MergeCells(d, o, idx, last) ==
  IF idx > last \/ d.panicked THEN d
  ELSE LET pos == CASE d.kind = "low"  -> (IF idx < d.mn THEN 0 ELSE idx - d.off)
                    [] d.kind = "high" -> (IF idx > d.mx THEN LenA(d) - 1 ELSE idx - d.off)
                    [] OTHER -> idx - d.off
       IN IF pos < 0 \/ pos >= LenA(d) \/ ~InArr(o, idx) THEN Panic(d)
          ELSE MergeCells([d EXCEPT !.arr[pos + 1] = d.arr[pos + 1] + Cell(o, idx)], o, idx + 1, last)

ImplMergeSame(d, o) ==
  IF o.cnt = 0 \/ d.panicked THEN d
  ELSE LET d1 == IF o.mn < d.mn \/ o.mx > d.mx THEN ExtendRange(d, o.mn, o.mx) ELSE d
       IN IF d1.panicked THEN d1
          ELSE LET d2 == MergeCells(d1, o, o.mn, o.mx) IN [d2 EXCEPT !.cnt = d1.cnt + o.cnt]

\* abstraction: what ForEach yields (cells of minIndex..maxIndex that hold weight)
AbsBins(d) ==
  IF d.cnt = 0 THEN EmptyMap
  ELSE LET D == {i \in d.mn..d.mx : InArr(d, i) /\ Cell(d, i) > 0} IN [i \in D |-> Cell(d, i)]

ImplMergeAdds(d, b) ==
  LET ord == SortedSeq(DOMAIN b)
      F[k \in 0..Len(ord)] == IF k = 0 THEN d ELSE ImplAdd(F[k - 1], ord[k], b[ord[k]])
  IN F[Len(ord)]

ImplMerge(d, o) ==
  IF d.kind = o.kind THEN ImplMergeSame(d, o) ELSE ImplMergeAdds(d, AbsBins(o))

ImplClear(d) == [d EXCEPT !.arr = <<>>, !.cnt = 0, !.mn = BIG, !.mx = -BIG, !.coll = FALSE]

ImplReweight(d, num, den) ==
  [d EXCEPT !.cnt = (d.cnt * num) \div den,
            !.arr = [k \in 1..LenA(d) |-> IF k - 1 + d.off >= d.mn /\ k - 1 + d.off <= d.mx THEN (d.arr[k] * num) \div den ELSE d.arr[k]]]

\* KeyAtRank scans the WHOLE array (not only minIndex..maxIndex)
ImplKeyAtRank2(d, r2) ==
  LET r == IF r2 < 0 THEN 0 ELSE r2
      c[k \in 0..LenA(d)] == IF k = 0 THEN 0 ELSE c[k - 1] + d.arr[k]
      S == {k \in 1..LenA(d) : 2 * c[k] > r}
  IN IF S # {} THEN Min(S) - 1 + d.off ELSE d.mx

-----------------------------------------------------------------------------
(* Product state machine: the implementation-shaped stores `im` and the abstract stores `ab` take the same events *)

CONSTANTS Slots, Keys, Weights, InitKinds, MaxTotal   \* InitKinds: [Slots -> [kind, n]]

VARIABLES im, ab
vars == <<im, ab>>

Init ==
  /\ im = [s \in Slots |-> NewDense(InitKinds[s].kind, InitKinds[s].n)]
  /\ ab = [s \in Slots |-> NewStore(InitKinds[s].kind, InitKinds[s].n)]

AddEv(s, i, w) == im' = [im EXCEPT ![s] = ImplAdd(im[s], i, w)] /\ ab' = [ab EXCEPT ![s] = ApplyAdd(ab[s], i, w)]
MergeEv(t, s) == t # s /\ im' = [im EXCEPT ![t] = ImplMerge(im[t], im[s])] /\ ab' = [ab EXCEPT ![t] = ApplyMerge(ab[t], ab[s])]
ClearEv(s) == im' = [im EXCEPT ![s] = ImplClear(im[s])] /\ ab' = [ab EXCEPT ![s] = Fresh(ab[s])]
CopyEv(t, s) == t # s /\ im' = [im EXCEPT ![t] = im[s]] /\ ab' = [ab EXCEPT ![t] = ab[s]]
ReweightEv(s) == Divisible(ab[s].bins, 1, 2) /\ im' = [im EXCEPT ![s] = ImplReweight(im[s], 1, 2)] /\ ab' = [ab EXCEPT ![s] = ApplyReweight(ab[s], 1, 2)]

Next ==
  \/ \E s \in Slots, i \in Keys, w \in Weights : AddEv(s, i, w)
  \/ \E s, t \in Slots : MergeEv(t, s) \/ CopyEv(t, s)
  \/ \E s \in Slots : ClearEv(s) \/ ReweightEv(s)

Spec == Init /\ [][Next]_vars

I_NoPanic == \A s \in Slots : ~im[s].panicked

Healthy(d) == ~d.panicked

I_Refines == \A s \in Slots : Healthy(im[s]) => AbsBins(im[s]) = ab[s].bins /\ im[s].coll = ab[s].collapsed

I_Structure ==
  \A s \in Slots : Healthy(im[s]) =>
    LET d == im[s] IN
      /\ d.cnt = FoldLeft(LAMBDA x, y : x + y, 0, d.arr)                      \* count = sum of all cells
      /\ d.cnt > 0 => (InArr(d, d.mn) /\ InArr(d, d.mx) /\ Cell(d, d.mn) > 0 /\ Cell(d, d.mx) > 0)
      /\ \A k \in 1..LenA(d) : (k - 1 + d.off < d.mn \/ k - 1 + d.off > d.mx) => d.arr[k] = 0   \* nothing outside [min,max]
      /\ d.kind # "exact" => LenA(d) <= d.n
      /\ d.coll => (d.off = d.mn /\ d.mx - d.mn + 1 = LenA(d))

\* the whole-array scan of KeyAtRank equals the abstract rank lookup
I_KeyAtRank ==
  \A s \in Slots : (Healthy(im[s]) /\ im[s].cnt > 0) =>
    \A r2 \in ProbeRanks2(ab[s].bins) : ImplKeyAtRank2(im[s], r2) = KeyAtRank2(ab[s].bins, r2)

BoundedC == \A s \in Slots : Total(ab[s].bins) <= MaxTotal

DKeys == -3..6
DKeysSmall == -2..3
IK_ExactExact == (1 :> [kind |-> "exact", n |-> 0]) @@ (2 :> [kind |-> "exact", n |-> 0])
IK_Low2Low4 == (1 :> [kind |-> "low", n |-> 2]) @@ (2 :> [kind |-> "low", n |-> 4])
IK_High2High4 == (1 :> [kind |-> "high", n |-> 2]) @@ (2 :> [kind |-> "high", n |-> 4])
IK_Low3High2 == (1 :> [kind |-> "low", n |-> 3]) @@ (2 :> [kind |-> "high", n |-> 2])
IK_ExactLow2 == (1 :> [kind |-> "exact", n |-> 0]) @@ (2 :> [kind |-> "low", n |-> 2])
=============================================================================
