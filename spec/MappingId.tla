----------------------------- MODULE MappingId -----------------------------
(***************************************************************************)
(* Identity of an index mapping through its serialized forms (C19) and the *)
(* acceptance table of the mapping constructors (constructor clause of     *)
(* C13).  A mapping is a triple [kind, g, o]: interpolation kind, a token  *)
(* for its base gamma and a token for its index offset (the harness maps   *)
(* tokens to actual float64 values that are >= 0.1% apart).  The binary    *)
(* block (flag.go: flag byte selected by the kind, then gamma and offset   *)
(* as float64LE), the protobuf message (gamma, indexOffset, interpolation)  *)
(* and the streamed protobuf are three images of the triple.               *)
(***************************************************************************)
EXTENDS Integers, FiniteSets, Sequences, TLC, Json

CONSTANTS Kinds, GammaToks, OffsetToks

VARIABLES a, b      \* an ordered pair of mappings under comparison
vars == <<a, b>>

Mappings == [kind : Kinds, g : GammaToks, o : OffsetToks]

\* the three serialized forms
SubFlag(kind) == CASE kind = "log" -> 0 [] kind = "linear" -> 1 [] kind = "cubic" -> 3
Interp(kind) == CASE kind = "log" -> "NONE" [] kind = "linear" -> "LINEAR" [] kind = "cubic" -> "CUBIC"

BinForm(m) == <<"flagtype-mapping", SubFlag(m.kind), m.g, m.o>>
ProtoForm(m) == [interpolation |-> Interp(m.kind), gamma |-> m.g, indexOffset |-> m.o]

\* reading a form back
KindOfSub(s) == CHOOSE k \in Kinds : SubFlag(k) = s
FromBin(f) == [kind |-> KindOfSub(f[2]), g |-> f[3], o |-> f[4]]
KindOfInterp(i) == CHOOSE k \in Kinds : Interp(k) = i
FromProto(p) == [kind |-> KindOfInterp(p.interpolation), g |-> p.gamma, o |-> p.indexOffset]

\* Equals: same kind, same gamma and same offset (tokens are clearly different values)
Equals(m1, m2) == m1.kind = m2.kind /\ m1.g = m2.g /\ m1.o = m2.o

Init == a \in Mappings /\ b \in Mappings
Next == UNCHANGED vars
Spec == Init /\ [][Next]_vars

\* C19
M_RoundTrip == FromBin(BinForm(a)) = a /\ FromProto(ProtoForm(a)) = a
M_Injective == (BinForm(a) = BinForm(b) \/ ProtoForm(a) = ProtoForm(b)) => a = b
M_Equality ==
  /\ Equals(a, a)
  /\ Equals(a, b) = Equals(b, a)
  /\ (a.kind # b.kind) => ~Equals(a, b)
  /\ Equals(a, b) => (BinForm(a) = BinForm(b) /\ ProtoForm(a) = ProtoForm(b))
  /\ Equals(a, FromBin(BinForm(a))) /\ Equals(a, FromProto(ProtoForm(a)))

Emit == PrintT(<<"BEH", ToJson([a |-> a, b |-> b, equal |-> Equals(a, b)])>>)

-----------------------------------------------------------------------------
(* Constructor acceptance (C13): accuracies must lie strictly inside (0,1), bases strictly above 1 *)
AccuracyToks == {"negative", "zero", "tiny", "mid", "almost-one", "one", "above-one"}
GammaArgToks == {"below-one", "one", "just-above-one", "two"}
AccuracyAccepted(t) == t \in {"tiny", "mid", "almost-one"}
GammaAccepted(t) == t \in {"just-above-one", "two"}

ConstructorTable ==
  [accuracy |-> [t \in AccuracyToks |-> AccuracyAccepted(t)],
   gamma    |-> [t \in GammaArgToks |-> GammaAccepted(t)]]

EmitTable == PrintT(<<"TABLE", ToJson(ConstructorTable)>>)

AllKinds == {"log", "linear", "cubic"}
=============================================================================
