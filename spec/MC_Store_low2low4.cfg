SPECIFICATION Spec
CONSTANTS
  Slots = {1, 2}
  Keys <- MCKeys
  Q <- MCQ
  Weights <- MCWeights
  Repeats <- MCRepeats
  Factors <- MCFactors
  Ops <- OpsCore
  InitStores <- K_Low2Low4
  MaxTotal = 6
CONSTRAINT Bounded
VIEW View
INVARIANTS TypeOK S_Fold S_Conserve S_Span S_CollapsedMeaning S_ExactWhenNarrow S_KeyAtRank S_MergeOrderIrrelevant S_FastMergeIsGeneric
PROPERTIES S_OnlyReceiverChanges S_ReadOnly S_ClearIsInit S_Reweight S_Copy S_ZeroWeight
CHECK_DEADLOCK FALSE
