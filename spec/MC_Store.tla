------------------------------ MODULE MC_Store ------------------------------
(* Model-checking configurations of Store.tla (constants and constraints). *)
EXTENDS Store

CONSTANT MaxTotal   \* state constraint: quanta per slot

MCQ == 2
MCKeys == 0..4
MCKeysQuick == 0..3
MCWeights == {0, 1, 2, 4}
MCFactors == {<<1, 2>>, <<2, 1>>, <<3, 1>>}
MCRepeats == {2}

Bounded == \A s \in Slots : Total(ledger[s]) <= MaxTotal

\* slot kinds of the configurations (cfg files pick one with `InitStores <- ...`)
K_ExactExact == (1 :> NewStore("exact", 0)) @@ (2 :> NewStore("exact", 0))
K_Low2High3  == (1 :> NewStore("low", 2))   @@ (2 :> NewStore("high", 3))
K_Low3Low1   == (1 :> NewStore("low", 3))   @@ (2 :> NewStore("low", 1))
K_Low2Low4   == (1 :> NewStore("low", 2))   @@ (2 :> NewStore("low", 4))
K_High2High4 == (1 :> NewStore("high", 2))  @@ (2 :> NewStore("high", 4))
K_High3High1 == (1 :> NewStore("high", 3))  @@ (2 :> NewStore("high", 1))
K_ExactLow2  == (1 :> NewStore("exact", 0)) @@ (2 :> NewStore("low", 2))
K_ExactHigh2 == (1 :> NewStore("exact", 0)) @@ (2 :> NewStore("high", 2))
K_Low3High3Exact == (1 :> NewStore("low", 3)) @@ (2 :> NewStore("high", 3)) @@ (3 :> NewStore("exact", 0))

OpsAll == {"Add", "AddWithCount", "AddBin", "Merge", "CopyTo", "Clear", "Reweight", "EncDec", "Proto", "Read"}
OpsCore == {"Add", "AddWithCount", "Merge", "CopyTo", "Clear", "Reweight"}

View == <<st, ledger>>
=============================================================================
